"""C34 Ray casting returns the nearest eligible hit.

Differential monitor: mjw.rays / mjw.ray (brute-force kernel and BVH-accelerated kernel) on generated scenes that contain
every geom type, several worlds with different poses and every filter setting, versus a float64 per-geom table built with
mju_rayGeom / mj_rayMesh / mj_rayHfield (and mj_ray / mj_multiRay end to end).  Ties accept either geom; rays whose
reference answer changes under a small perturbation of origin / direction are inconclusive.
"""

import mujoco
import numpy as np

from mon import core, mw
from mon.props import _rayscene as rs

ID = "C34"
LEVEL = "exploration"
RULE = (
  "case=seed: generated scene with >=1 geom of each type (plane finite/infinite, hfield, sphere, capsule, ellipsoid, cylinder, "
  "box, convex/non-convex/STL meshes) spread over static, welded, free, hinged and mocap bodies, random groups 0..5, "
  "alpha-0 geoms and materials; 3 worlds with different poses; ~240 rays of classes random / aimed / inside / axis / "
  "parallel-to-face / tangent / fan / mesh-tip / non-unit; 4 filter settings (group mask x flg_static) with per-ray bodyexclude; brute "
  "and BVH kernels, shared and per-world ray arrays, mjw.ray single-ray API. Non-trivial: >=40 reference hits on >=5 geom "
  "types; distinct by hash(xml, qpos, rays)."
)
ASSUMPTIONS = [
  "MuJoCo 3.13 C (float64) mju_rayGeom/mj_rayMesh/mj_rayHfield/mj_ray/mj_multiRay are the reference; geometry is computed by each engine from the same float32 qpos",
  "a ray is judged only if its reference answer (hit/miss, geom id up to 1e-4 ties) is unchanged under 3 ulp-scale and 3 2e-5-scale perturbations of origin and direction",
  "distance bound 1e-4*max(1,dist,|origin|) + 50*measured reference noise (float32 cancellation in the quadric solve of small, far, obliquely hit geoms reaches 1.5e-4); violation above 30x bound; normals 2e-3 + 50*noise; geoms within max(1e-4, 2*bound) of the nearest count as ties",
  "a mismatch is reported only if it persists on >=2 of 3 neighbouring rays at 2e-5 distance (isolated seam / edge points are tallied, not reported)",
  "the BVH context is created with all six geom groups enabled and refit after kinematics",
  "hits farther than 100 length units (50x the scene extent) are outside the judged domain",
  "ray directions in the deciding classes are unit vectors (non-unit directions are a separate, reported class)",
]
BUDGET = {"quick": 150, "thorough": 1500}

TIE = 1e-4
A_DIST = 1e-4
A_NORMAL = 2e-3
VIOL = 30.0
NW = 3
MAXDIST = 100.0  # 50x the scenes' stat.extent; the scene BVH clips infinite planes at +-1000


def cases(tier, seed):
  n = 64 if tier == "quick" else 900
  return [{"id": f"s{seed}_{i}", "seed": seed * 100000 + i} for i in range(n)]


# ------------------------------------------------------------------------------------ rays


def _unit(v):
  return v / np.linalg.norm(v, axis=-1, keepdims=True)


def make_rays(rng, mjm, mjd):
  """Rays built around the geometry of one world. Returns pnt (n,3), vec (n,3), cls (n,) labels."""
  P, V, C = [], [], []
  ng = mjm.ngeom
  xpos = np.array(mjd.geom_xpos)
  xmat = np.array(mjd.geom_xmat).reshape(ng, 3, 3)
  size = np.array(mjm.geom_size)
  gtype = np.array(mjm.geom_type)

  def add(p, v, c):
    P.append(np.asarray(p, float))
    V.append(np.asarray(v, float))
    C.append(c)

  for _ in range(50):  # random
    add([rng.uniform(-2.5, 2.5), rng.uniform(-2.5, 2.5), rng.uniform(-0.5, 3)], _unit(rng.normal(size=3)), "random")
  for _ in range(50):  # aimed at a geom from outside
    g = rng.integers(ng)
    o = xpos[g] + _unit(rng.normal(size=3)) * rng.uniform(1.0, 4.0)
    tgt = xpos[g] + rng.normal(size=3) * 0.12
    add(o, _unit(tgt - o), "aimed")
  for _ in range(30):  # origin inside a closed geom
    g = rng.integers(ng)
    if gtype[g] == rs.GT.mjGEOM_PLANE:
      continue
    off = rng.normal(size=3) * 0.02
    if gtype[g] == rs.GT.mjGEOM_HFIELD:
      off = xmat[g] @ np.array([rng.uniform(-0.2, 0.2), rng.uniform(-0.2, 0.2), -0.5 * mjm.hfield_size[0, 3]])
    add(xpos[g] + off, _unit(rng.normal(size=3)), "inside")
  for _ in range(24):  # exactly axis-aligned directions (world axes), through / near a geom
    g = rng.integers(ng)
    ax = np.zeros(3)
    ax[rng.integers(3)] = rng.choice([-1.0, 1.0])
    lat = rng.normal(size=3) * 0.1
    add(xpos[g] + lat - ax * rng.uniform(0.8, 3.0), ax, "axis")
  for _ in range(24):  # direction along a local axis of the geom (parallel to box faces / cylinder caps / plane), offset 1e-3
    g = rng.integers(ng)
    t = gtype[g]
    R = xmat[g]
    i = rng.integers(3)
    j = (i + 1 + rng.integers(2)) % 3
    s = size[g] if t in (rs.GT.mjGEOM_BOX, rs.GT.mjGEOM_ELLIPSOID) else np.array([size[g][0], size[g][0], size[g][1]])
    if t in (rs.GT.mjGEOM_PLANE, rs.GT.mjGEOM_HFIELD, rs.GT.mjGEOM_MESH, rs.GT.mjGEOM_SPHERE):
      s = np.array([0.2, 0.2, 0.0]) if t == rs.GT.mjGEOM_PLANE else np.array([0.1, 0.1, 0.1])
    d = R[:, i] * rng.choice([-1.0, 1.0])
    side = rng.choice([-1.0, 1.0])
    eps = rng.choice([-1e-3, 1e-3, 3e-3])
    lat = R[:, j] * side * (s[j] + eps)
    add(xpos[g] + lat - d * rng.uniform(0.8, 2.0), d, "parallel")
  for _ in range(24):  # tangent to round geoms at r*(1 +- 1e-3..1e-2)
    g = rng.integers(ng)
    r = size[g][0] if gtype[g] in (rs.GT.mjGEOM_SPHERE, rs.GT.mjGEOM_CAPSULE, rs.GT.mjGEOM_CYLINDER) else 0.15
    d = _unit(rng.normal(size=3))
    if gtype[g] in (rs.GT.mjGEOM_CAPSULE, rs.GT.mjGEOM_CYLINDER):
      z = xmat[g][:, 2]
      d = _unit(d - z * (d @ z))  # perpendicular to the axis: grazes the round side
      n = _unit(np.cross(d, z))
    else:
      n = _unit(np.cross(d, rng.normal(size=3)))
    f = 1 + rng.choice([-1.0, 1.0]) * rng.choice([1e-3, 1e-2])
    add(xpos[g] + n * r * f - d * rng.uniform(0.8, 2.5), d, "tangent")
  o = np.array([rng.uniform(-2, 2), rng.uniform(-2, 2), rng.uniform(0.8, 2.5)])  # fan from one origin
  nfan = 24
  for _ in range(nfan):
    g = rng.integers(ng)
    add(o, _unit(xpos[g] + rng.normal(size=3) * 0.3 - o), "fan")
  meshes = [g for g in range(ng) if gtype[g] == rs.GT.mjGEOM_MESH]
  for _ in range(12 if meshes else 0):  # towards the vertex of a mesh that lies farthest outside its centred half-extent box
    g = meshes[rng.integers(len(meshes))]
    mid = int(mjm.geom_dataid[g])
    Vm = mjm.mesh_vert[mjm.mesh_vertadr[mid] : mjm.mesh_vertadr[mid] + mjm.mesh_vertnum[mid]]
    half = 0.5 * (Vm.max(axis=0) - Vm.min(axis=0))
    exc = np.abs(Vm) - half[None]
    vi, ax = np.unravel_index(np.argmax(exc), exc.shape)
    tgt_l = 0.9 * Vm[vi] + 0.1 * Vm.mean(axis=0)
    j = (ax + 1 + rng.integers(2)) % 3
    dl = np.zeros(3)
    dl[j] = rng.choice([-1.0, 1.0])
    dl += rng.normal(size=3) * 0.05
    dl[ax] = 0.0
    dl = _unit(dl)
    R = xmat[g]
    add(xpos[g] + R @ (tgt_l - dl * rng.uniform(0.8, 2.0)), R @ dl, "meshtip")
  for _ in range(10):  # non-unit directions (diagnostic class)
    g = rng.integers(ng)
    oo = xpos[g] + _unit(rng.normal(size=3)) * rng.uniform(1.0, 3.0)
    add(oo, _unit(xpos[g] + rng.normal(size=3) * 0.1 - oo) * rng.choice([0.25, 0.5, 2.0, 4.0]), "nonunit")
  pnt = np.array(P).astype(np.float32).astype(np.float64)
  vec = np.array(V).astype(np.float32).astype(np.float64)
  return pnt, vec, np.array(C)


# ------------------------------------------------------------------------------------ judging


def hit_class(ref, g, dvec, normal, pnt, dist):
  """Sub-classification of a reference hit used in signatures: mesh back-face, hfield side/base vs top."""
  t = rs.TYPE_NAMES[int(ref.gtype[g])]
  if t == "mesh" and float(dvec @ normal) > 1e-9:
    return "mesh-backface"
  if t == "mesh":
    # hit point outside the box of half-extents 0.5*(max-min) centred on the geom origin (the scene BVH's mesh bound)
    mjm = ref.mjm
    mid = int(mjm.geom_dataid[g])
    V = mjm.mesh_vert[mjm.mesh_vertadr[mid] : mjm.mesh_vertadr[mid] + mjm.mesh_vertnum[mid]]
    half = 0.5 * (V.max(axis=0) - V.min(axis=0))
    R = ref.xmat[g].reshape(3, 3)
    hp = R.T @ (pnt + dist * dvec - ref.xpos[g])
    if np.any(np.abs(hp) > half + 1e-6):
      return "mesh-outside-centred-aabb"
  if t == "hfield":
    R = ref.xmat[g].reshape(3, 3)
    nl = R.T @ normal
    hz = float((R.T @ (pnt + dist * dvec - ref.xpos[g]))[2])
    if abs(nl[2]) < 1e-6 or nl[2] < -0.999 or hz <= 1e-7:
      return "hfield-side-base"
    if float(dvec @ normal) > 1e-9:
      return "hfield-backface"
    return "hfield-top"
  return t


class Judge:
  """Reference ensemble of one world: table at the nominal rays and at 6 perturbed copies."""

  def __init__(self, mjm, mjd, pnt, vec, seed):
    self.ref = rs.Ref(mjm, mjd)
    self.pnt, self.vec = pnt, vec
    self.D, self.N = self.ref.table(pnt, vec)
    rng = np.random.default_rng(seed)
    self.alt = []
    for k in range(6):
      p2, v2 = rs.perturb(pnt, vec, rng, "ulp" if k < 3 else "geo")
      p2 = p2.astype(np.float32).astype(np.float64) if k >= 3 else p2  # 'geo' neighbours are re-cast by MJWarp: keep them float32
      v2 = v2.astype(np.float32).astype(np.float64) if k >= 3 else v2
      D2, N2 = self.ref.table(p2, v2)
      self.alt.append((D2, N2, k < 3, p2, v2))

  def expected(self, E):
    """Nominal answer + stability + noise under eligibility E (nray, ngeom)."""
    d0, g0, d2 = rs.nearest(self.D, E)
    n = len(d0)
    stable = np.ones(n, bool)
    noise_d = np.zeros(n)
    noise_n = np.zeros(n)
    ar = np.arange(n)
    n0 = np.where((g0 >= 0)[:, None], self.N[ar, np.maximum(g0, 0)], 0.0)
    for D2, N2, small, _, _ in self.alt:
      dk, gk, _ = rs.nearest(D2, E)
      same_hit = (dk >= 0) == (d0 >= 0)
      stable &= same_hit
      both = (dk >= 0) & (d0 >= 0)
      dd = np.where(both, np.abs(dk - d0), 0.0)
      idchg = both & (gk != g0) & (dd > TIE)
      stable &= ~idchg
      stable &= dd < 1e-2 * np.maximum(1.0, d0)  # a 2e-5 nudge moving the hit by >1% => grazing incidence
      nk = np.where((gk >= 0)[:, None], N2[ar, np.maximum(gk, 0)], 0.0)
      dn = np.where(both & (gk == g0), np.abs(nk - n0).max(axis=1), 0.0)
      if small:
        noise_d = np.maximum(noise_d, dd)
        noise_n = np.maximum(noise_n, dn)
      else:
        noise_n = np.maximum(noise_n, np.where(dn > 1e-2, np.inf, 0.0))  # normal discontinuity (edge / seam)
    tie = (d0 >= 0) & (d2 - d0 <= TIE)
    return {"d": d0, "g": g0, "n": n0, "stable": stable, "noise_d": noise_d, "noise_n": noise_n, "tie": tie, "E": E}

  def neighbour(self, k, E, r, noise_d):
    """Expectation for ray r of the k-th perturbed ray set (used to confirm that a mismatch is not an isolated point)."""
    D2, N2, _, p2, v2 = self.alt[k]
    d, g, d2 = rs.nearest(D2[r : r + 1], E[r : r + 1])
    n0 = N2[r, g[0]] if g[0] >= 0 else np.zeros(3)
    exp = {"d": d, "g": g, "n": n0[None], "stable": np.ones(1, bool), "noise_d": np.array([noise_d]), "noise_n": np.array([np.inf]), "tie": (d >= 0) & (d2 - d <= TIE), "E": E[r : r + 1]}
    return exp, D2[r : r + 1], N2[r : r + 1], p2[r : r + 1], v2[r : r + 1]


# reference-hit classes on which the BVH kernel is known (from reading ray.py / bvh.py) to follow different rules than the
# brute-force kernel: triangle back faces are culled and the hfield BVH mesh has no sides / base.  Mismatches there get one
# mechanism signature each so that they can be triaged once; every other BVH mismatch keeps its own signature.
BVH_DEVIATION = ("mesh-backface", "hfield-side-base", "hfield-backface", "mesh-outside-centred-aabb")


def _sig(tag, c, kind, hc, got_type=None):
  if tag.startswith("bvh") and hc in BVH_DEVIATION:
    return f"bvh:deviates-from-brute:{hc}"
  if c == "nonunit":
    tri = hc.startswith(("mesh", "hfield")) or (got_type in ("mesh", "hfield"))
    return f"{tag.split('-')[0]}:nonunit-direction:" + ("triangle-geoms" if tri else f"{kind}:{hc}")
  return f"{tag}:{kind}:{hc}"


def classify(ref, D, N, pnt, vec, exp, i, gd, gg, gn, c, tag):
  """Verdict for one ray (row i of the tables): ('ok'|'grey'|'viol', sig, msg, hit class, worst-ratio list)."""
  d0, g0 = float(exp["d"][i]), int(exp["g"][i])
  E = exp["E"]
  worst = []
  if not np.isfinite(gd):
    return "viol", f"{tag}:dist:nonfinite", f"{tag}: non-finite distance", None, worst
  if g0 < 0:
    if gg != -1 or gd != -1.0:
      if 0 <= gg < ref.ng and not E[i, gg]:
        return "viol", f"{tag}:filter:ineligible-geom-returned", f"{tag}: hit on geom {gg}, which the filter excludes (reference: no hit)", "miss", worst
      tn = rs.TYPE_NAMES.get(int(ref.gtype[gg]), "?") if 0 <= gg < ref.ng else "badid"
      return "viol", _sig(tag, c, "phantom-hit", tn), f"{tag}: hit on geom {gg} at {gd:.6g} where the reference has none", "miss", worst
    if np.abs(gn).max() != 0:
      return "viol", f"{tag}:normal:nonzero-on-miss", f"{tag}: miss with non-zero normal", "miss", worst
    return "ok", None, None, "miss", worst
  hc = hit_class(ref, g0, vec[i], exp["n"][i], pnt[i], d0)
  if gg == -1 or gd < 0:
    return "viol", _sig(tag, c, "miss", hc), f"{tag}: no hit reported, reference hits {hc} geom {g0} at {d0:.6g}", hc, worst
  if not (0 <= gg < ref.ng):
    return "viol", f"{tag}:geomid:out-of-range", f"{tag}: geom id {gg}", hc, worst
  nref = exp["n"][i]
  scale = max(1.0, d0, float(np.linalg.norm(pnt[i])))
  bound = A_DIST * scale + 50 * float(exp["noise_d"][i])
  if gg != g0:
    dg = D[i, gg]
    if not E[i, gg]:
      return "viol", f"{tag}:filter:ineligible-geom-returned", f"{tag}: returned geom {gg} is excluded by the filter; nearest eligible is {g0}", hc, worst
    if dg >= 0 and abs(dg - d0) <= max(TIE, 2 * bound):
      g0, d0, nref = gg, float(dg), N[i, gg]  # tie: judge distance / normal against the returned geom's own entry
    else:
      gt = rs.TYPE_NAMES[int(ref.gtype[gg])]
      if dg >= 0 and abs(gd - dg) <= 1e-3 * max(1.0, d0):
        return "viol", _sig(tag, c, "nearest-skipped", hc, gt), f"{tag}: returned geom {gg} at {gd:.6g} (its own correct distance) but geom {g0} ({hc}) is nearer at {d0:.6g}", hc, worst
      return "viol", _sig(tag, c, "geomid", hc, gt), f"{tag}: geom {gg} dist {gd:.6g}; reference geom {g0} ({hc}) dist {d0:.6g}; table[{gg}]={dg:.6g}", hc, worst
  ratio = abs(gd - d0) / bound
  worst.append((f"{tag}:dist:{hc}", ratio))
  if ratio > VIOL:
    return "viol", _sig(tag, c, "dist", hc), f"{tag}: dist {gd:.7g} vs reference {d0:.7g} ({hc} geom {g0}), bound {bound:.3g}", hc, worst
  if ratio > 1:
    return "grey", "dist", None, hc, worst
  if not np.isfinite(exp["noise_n"][i]) or exp["tie"][i]:
    return "ok", "normal-unjudged", None, hc, worst
  nb = A_NORMAL + 50 * float(exp["noise_n"][i])
  nr_ = float(np.abs(np.asarray(gn, float) - nref).max()) / nb
  worst.append((f"{tag}:normal:{hc}", nr_))
  if nr_ > VIOL:
    return "viol", _sig(tag, c, "normal", hc), f"{tag}: normal {np.asarray(gn)} vs reference {nref} ({hc} geom {g0})", hc, worst
  if nr_ > 1:
    return "grey", "normal", None, hc, worst
  return "ok", None, None, hc, worst


def judge_rays(rec, J, exp, got_d, got_g, got_n, cls, tag, w, sel=None, recast=None):
  """Compares MJWarp's (dist, geomid, normal) with the expectation; one rec.check per ray judged.

  recast(pnt(1,3), vec(1,3), r) -> (dist, geomid, normal) re-runs the same MJWarp call on a neighbouring ray; a mismatch is
  reported only if it persists on >=2 of the 3 neighbours at 2e-5 distance (isolated points such as a ray lying exactly in
  the seam between two sub-primitives are measure-zero float32 artefacts, tallied but not reported).
  """
  ref = J.ref
  idx = range(len(got_d)) if sel is None else sel
  for r in idx:
    c = cls[r]
    if not exp["stable"][r]:
      rec.count("rays_inconclusive_grazing")
      rec.cover("grazing:" + c, 1)
      continue
    if exp["d"][r] > MAXDIST:
      rec.count("rays_out_of_domain_hit_beyond_100")  # e.g. near-parallel hits on infinite planes
      continue
    gd, gg = float(got_d[r]), int(got_g[r])
    rec.check()
    rec.cover("judged:" + tag, 1)
    rec.cover("class:" + c, 1)
    verdict, sig, msg, hc, worst = classify(ref, J.D, J.N, J.pnt, J.vec, exp, r, gd, gg, got_n[r], c, tag)
    if hc == "miss":
      rec.cover("ref_miss", 1)
    elif hc:
      rec.cover("hit:" + hc, 1)
    if c != "nonunit" and verdict != "viol":
      for k, v in worst:
        rec.worst(k, v)
    if verdict == "ok":
      if sig:
        rec.count("rays_normal_unjudged_edge")
      continue
    if verdict == "grey":
      rec.count(f"rays_{sig}_greyzone")
      continue
    persists = 3
    if recast is not None:
      persists = 0
      for k in (3, 4, 5):
        e2, D2, N2, p2, v2 = J.neighbour(k, exp["E"], r, float(exp["noise_d"][r]))
        d2_, g2_, n2_ = recast(p2, v2, r)
        v2d, _, _, _, _ = classify(ref, D2, N2, p2, v2, e2, 0, float(d2_), int(g2_), n2_, c, tag)
        persists += v2d == "viol"
    if persists >= 2:
      rec.viol(sig, msg + f" [persists on {persists}/3 neighbouring rays]", world=w, ray=int(r), cls=c, pnt=J.pnt[r], vec=J.vec[r], ref_dist=exp["d"][r], ref_geom=int(exp["g"][r]), got_dist=gd, got_geom=gg)
    else:
      rec.count("isolated_mismatch_not_persisting_on_neighbours")
      rec.cover("isolated_mismatch:" + sig, 1)


def run_case(case):
  import warp as wp

  import mujoco_warp as mjw
  from mujoco_warp._src.types import vec6

  rec = core.Rec(case)
  seed = case["seed"]
  rng = np.random.default_rng(seed + 7)
  xml, info = rs.make_scene(seed, ncam=0, p_invisible=0.1)
  try:
    mjm = mujoco.MjModel.from_xml_string(xml)
  except Exception as e:  # noqa
    rec.rejected = f"mujoco compile: {e}"[:200]
    return rec.result()
  try:
    m = mw.put_model(mjm)
  except (NotImplementedError, ValueError) as e:
    rec.rejected = f"put_model: {e}"[:200]
    return rec.result()
  states = [rs.sample_pose(mjm, rng) for _ in range(NW)]
  d = mw.make_data(mjm, m, states)
  mjw.kinematics(m, d)
  mjds = []
  for st in states:
    mjd = mujoco.MjData(mjm)
    mw.apply_state_mj(mjm, mjd, st)
    mujoco.mj_kinematics(mjm, mjd)
    mjds.append(mjd)

  batched = bool(seed % 2)  # per-world ray arrays vs one shared array
  if batched:
    rays = [make_rays(np.random.default_rng(seed + 100 + w), mjm, mjds[w]) for w in range(NW)]
    nmin = min(len(r[0]) for r in rays)
    rays = [(p[:nmin], v[:nmin], c[:nmin]) for p, v, c in rays]
  else:
    r0 = make_rays(np.random.default_rng(seed + 100), mjm, mjds[0])
    rays = [r0] * NW
  nray = len(rays[0][0])
  pnt_np = np.stack([r[0] for r in rays]) if batched else rays[0][0][None]
  vec_np = np.stack([r[1] for r in rays]) if batched else rays[0][1][None]
  pnt = wp.array(pnt_np.astype(np.float32), dtype=wp.vec3)
  vec = wp.array(vec_np.astype(np.float32), dtype=wp.vec3)

  judges = [Judge(mjm, mjds[w], rays[w][0], rays[w][1], seed + w) for w in range(NW)]

  # BVH context with every group enabled, refit to the per-world poses
  rc = None
  try:
    rc = mjw.create_render_context(mjm, nworld=NW, enabled_geom_groups=[0, 1, 2, 3, 4, 5])
    mjw.refit_bvh(m, d, rc)
  except Exception as e:  # noqa
    rec.inconcl(f"render context unavailable: {type(e).__name__}: {e}"[:200])
    rec.count("bvh_context_failed")
    rc = None

  # filter settings: (geomgroup or None, flg_static)
  masks = [None, tuple(int(x) for x in rng.integers(0, 2, size=6)), None, tuple(int(x) for x in rng.integers(0, 2, size=6))]
  if sum(masks[1]) == 0:
    masks[1] = (1, 0, 1, 0, 1, 0)
  if rng.random() < 0.5:  # mixed -1 / 0 / 1 mask: -1 counts as "included" (non-zero), as in MuJoCo's mjtByte test
    mm = list(masks[3])
    mm[int(rng.integers(6))] = -1
    masks[3] = tuple(mm)
  statics = [True, True, False, False]
  nhit_total = 0
  types_hit = set()
  for cfg in range(4):
    gg, fs = masks[cfg], statics[cfg]
    bex = rng.choice(np.concatenate([[-1] * 6, np.arange(mjm.nbody)]), size=nray).astype(np.int32)
    if cfg == 0:
      bex[:] = -1
    gvec = vec6(-1, -1, -1, -1, -1, -1) if gg is None else vec6(*[float(x) for x in gg])
    bex_wp = wp.array(bex, dtype=int)
    outs = {}
    for path in ("brute", "bvh"):
      if path == "bvh" and rc is None:
        continue
      dist = wp.full((NW, nray), 123.0, dtype=float)
      gid = wp.full((NW, nray), -7, dtype=int)
      nrm = wp.zeros((NW, nray), dtype=wp.vec3)
      mjw.rays(m, d, pnt, vec, gvec, fs, bex_wp, dist, gid, nrm, rc=(rc if path == "bvh" else None))
      outs[path] = (dist.numpy(), gid.numpy(), nrm.numpy())
    ggm = None if gg is None else np.array(gg)
    E = rs.eligible(mjm, ggm, fs, bex)
    rec.cover("filter:group=" + ("none" if gg is None else "mask") + f",static={int(fs)}", 1)
    for w in range(NW):
      J = judges[w]
      cls = rays[w][2]
      exp = J.expected(E)
      # reference self-check: table+filter must reproduce mj_ray
      gbytes = None if gg is None else np.array([1 if x != 0 else 0 for x in gg], dtype=np.uint8)
      bad = 0
      for r in range(nray):
        if not exp["stable"][r]:
          continue
        gid1 = np.zeros(1, np.int32)
        dr = mujoco.mj_ray(mjm, mjds[w], J.pnt[r], J.vec[r], gbytes, int(fs), int(bex[r]), gid1)
        if (dr < 0) != (exp["d"][r] < 0) or (dr >= 0 and abs(dr - exp["d"][r]) > 1e-9 * max(1, dr)):
          bad += 1
          exp["stable"][r] = False
      if bad:
        rec.count("reference_table_vs_mj_ray_disagree", bad)
        rec.inconcl("reference table and mj_ray disagree on some rays")
      # mj_multiRay cross-check on the fan
      fan = np.nonzero(cls == "fan")[0]
      if len(fan) and cfg == 0 and not batched:
        gidm = np.zeros(len(fan), np.int32)
        dm = np.zeros(len(fan))
        mujoco.mj_multiRay(mjm, mjds[w], J.pnt[fan[0]], J.vec[fan].ravel(), gbytes, int(fs), -1, gidm, dm, None, len(fan), mujoco.mjMAXVAL)
        mis = np.sum(np.where(exp["stable"][fan], (np.abs(dm - exp["d"][fan]) > 1e-9 * np.maximum(1, np.abs(dm))), False))
        rec.cover("multiray_crosschecked", int(len(fan)))
        if mis:
          rec.count("reference_table_vs_mj_multiRay_disagree", int(mis))
      nhit_total += int(np.sum((exp["d"] >= 0) & exp["stable"]))
      for g in np.unique(exp["g"][(exp["g"] >= 0) & exp["stable"]]):
        types_hit.add(rs.TYPE_NAMES[int(J.ref.gtype[g])])
      def make_recast(path, w=w, gvec=gvec, fs=fs, bex=bex):
        def recast(p2, v2, r):
          d1 = wp.full((NW, 1), 123.0, dtype=float)
          g1 = wp.full((NW, 1), -7, dtype=int)
          n1 = wp.zeros((NW, 1), dtype=wp.vec3)
          mjw.rays(m, d, wp.array(p2[None].astype(np.float32), dtype=wp.vec3), wp.array(v2[None].astype(np.float32), dtype=wp.vec3), gvec, fs, wp.array(bex[r : r + 1], dtype=int), d1, g1, n1, rc=(rc if path == "bvh" else None))
          return d1.numpy()[w, 0], g1.numpy()[w, 0], n1.numpy()[w, 0]

        return recast

      gd, gi, gn = outs["brute"]
      judge_rays(rec, J, exp, gd[w], gi[w], gn[w], cls, "brute", w, recast=make_recast("brute"))
      if "bvh" in outs:
        bd, bi, bn = outs["bvh"]
        # the BVH kernel is specified to return the same answer as the brute-force kernel
        judge_rays(rec, J, exp, bd[w], bi[w], bn[w], cls, "bvh", w, recast=make_recast("bvh"))
        same = (bi[w] == gi[w]) & (np.abs(bd[w] - gd[w]) <= 1e-5 * np.maximum(1, np.abs(gd[w])))
        rec.cover("bvh_equals_brute_rays", int(same.sum()))
        rec.cover("bvh_differs_from_brute_rays", int((~same).sum()))

  # single-ray API mjw.ray (scalar bodyexclude, default geomgroup) on a few rays
  for k in range(6):
    r = int(rng.integers(nray))
    be = int(rng.choice([-1, -1, int(rng.integers(mjm.nbody))]))
    fs = bool(rng.integers(2))
    use_rc = rc is not None and k % 2 == 1
    pp = wp.array(pnt_np[:, r : r + 1].astype(np.float32), dtype=wp.vec3)
    vv = wp.array(vec_np[:, r : r + 1].astype(np.float32), dtype=wp.vec3)
    dist, gid, nrm = mjw.ray(m, d, pp, vv, None, fs, be, rc=(rc if use_rc else None))
    dn, gn_, nn = dist.numpy(), gid.numpy(), nrm.numpy()
    E = rs.eligible(mjm, None, fs, np.full(nray, be))
    for w in range(NW):
      exp = judges[w].expected(E)
      judge_rays(rec, judges[w], exp, {r: dn[w, 0]}, {r: gn_[w, 0]}, {r: nn[w, 0]}, rays[w][2], ("bvh" if use_rc else "brute") + "-single", w, sel=[r])
  rec.cover("worlds", NW)
  rec.cover("ray_arrays:" + ("per-world" if batched else "shared"), 1)
  for name, t, place in info["geoms"]:
    rec.cover("geomtype_in_scene:" + t, 1)
  for mn in info["meshes"]:
    rec.cover("mesh_asset:" + mn, 1)
  if nhit_total >= 40 and len(types_hit) >= 5:
    rec.nontrivial(xml, *[s["qpos"] for s in states], pnt_np, vec_np)
  rec.sample = {"scene_seed": seed, "ngeom": mjm.ngeom, "nray": nray, "worlds": NW, "ray_arrays": "per-world" if batched else "shared", "masks": [str(x) for x in masks], "reference_hits": nhit_total, "types_hit": sorted(types_hit)}
  return rec.result()


def requirements(agg, tier):
  unmet = []
  cov = agg["cover"]
  for t in ("plane", "hfield-top", "hfield-side-base", "sphere", "capsule", "ellipsoid", "cylinder", "box", "mesh", "mesh-backface", "mesh-outside-centred-aabb"):
    if cov.get("hit:" + t, 0) < 20:
      unmet.append(f"fewer than 20 judged reference hits of class {t}")
  for c in ("random", "aimed", "inside", "axis", "parallel", "tangent", "fan"):
    if cov.get("class:" + c, 0) < 100:
      unmet.append(f"fewer than 100 judged rays of class {c}")
  for tag in ("brute", "bvh", "brute-single", "bvh-single"):
    if cov.get("judged:" + tag, 0) < 50:
      unmet.append(f"path {tag} judged on fewer than 50 rays")
  for f in ("filter:group=none,static=1", "filter:group=mask,static=1", "filter:group=none,static=0", "filter:group=mask,static=0"):
    if cov.get(f, 0) < 5:
      unmet.append(f"filter setting {f} not exercised")
  if cov.get("ref_miss", 0) < 100:
    unmet.append("fewer than 100 judged no-hit rays")
  if agg["distinct"] < 20:
    unmet.append("fewer than 20 distinct non-trivial cases")
  if agg["tally"].get("reference_table_vs_mj_ray_disagree", 0) > 0.01 * max(1, agg["checks"]):
    unmet.append("reference table disagrees with mj_ray on >1% of rays")
  return unmet
