"""C15 State get/set is MuJoCo-compatible, lossless, mask-respecting; invalid signatures are rejected.

Differential + round-trip monitor: for a signature sig, mjw.get_state of a batched Data must write, for every active
world, exactly the float32 image of what mujoco.mj_getState writes for an MjData holding the same numbers (same order,
same length = mj_stateSize), must not touch rows of inactive worlds nor columns beyond the state size; mjw.set_state
must change exactly what mj_setState changes (a MuJoCo mirror of every world is kept in lock-step and all state fields
are compared after every call), and get(set(x)) == x bit for bit.  Signatures MuJoCo refuses must raise.
"""

import mujoco
import numpy as np

from mon import core, gen, mw
from mon.props import _state as S

ID = "C15"
LEVEL = "exploration"
EXHAUSTIVE = {"quick": False, "thorough": True}
RULE = (
  "case=(model, signature chunk, seed): 3 fixed models with every state component present (na>nu via dyntype=user actdim, delay "
  "buffers of actuators and sensors, 1-2 mocap bodies, equalities, userdata) plus generated models; 2-4 worlds with random "
  "states, random history/warmstart content, random bool active masks (None in 1/3 of calls). quick: all 14 single bits, the "
  "named unions and 600 sampled signatures per fixed model + 60 per generated model; thorough: all 2^14 signatures for each "
  "fixed model (exhaustive over signatures). Non-trivial: state size >= 20 with >= 6 components non-empty; distinct by "
  "hash(model, chunk, states)."
)
ASSUMPTIONS = [
  "mujoco.mj_stateSize / mj_getState / mj_setState (3.13) define layout, size and validity of signatures",
  "values are float32-representable, so equality with the float32 image of MuJoCo's vector is exact (pure copies)",
  "a signature is 'rejected' if the call raises any Python exception before touching its arguments",
]
BUDGET = {"quick": 150, "thorough": 1500}

NS = int(mujoco.mjtState.mjNSTATE)
FIELDS = ("time", "qpos", "qvel", "act", "history", "qacc_warmstart", "ctrl", "qfrc_applied", "xfrc_applied", "eq_active", "mocap_pos", "mocap_quat", "userdata")
SENT = np.float32(12345.5)

FIXED = {
  "F1": """
<mujoco>
  <option timestep="0.00390625"/>
  <size nuserdata="2"/>
  <worldbody>
    <body name="a" pos="0 0 1"><joint name="s" type="slide"/><geom size="0.1" mass="1"/></body>
    <body name="mc" mocap="true" pos="1 0 0"><geom size="0.02" contype="0" conaffinity="0"/></body>
  </worldbody>
  <equality><connect body1="a" anchor="0 0 0.1"/></equality>
  <actuator>
    <motor joint="s" delay="0.0078125" nsample="3"/>
    <general joint="s" dyntype="filter" dynprm="0.1" gainprm="2"/>
  </actuator>
</mujoco>""",
  "F2": """
<mujoco>
  <option timestep="0.00390625"/>
  <size nuserdata="5"/>
  <worldbody>
    <body name="f" pos="0 0 1"><freejoint/><geom type="box" size="0.1 0.1 0.1"/>
      <body name="g" pos="0.3 0 0"><joint name="b" type="ball"/><geom type="capsule" size="0.04 0.1"/>
        <body name="h" pos="0.3 0 0"><joint name="h1" type="hinge" axis="0 1 0"/><joint name="h2" type="slide" axis="1 0 0"/><geom size="0.05"/></body>
      </body>
    </body>
    <body name="m1" mocap="true" pos="1 0 0"><geom size="0.02" contype="0" conaffinity="0"/></body>
    <body name="m2" mocap="true" pos="2 0 0" quat="0.6 0.8 0 0"><geom size="0.02" contype="0" conaffinity="0"/></body>
  </worldbody>
  <equality><weld body1="h" body2="m1"/><connect body1="f" body2="m2" anchor="0 0 0" active="false"/><joint joint1="h1" joint2="h2"/></equality>
  <actuator>
    <general name="u" joint="h1" dyntype="user" actdim="3" gainprm="1"/>
    <motor joint="h2" delay="0.005859375" nsample="4" interp="cubic"/>
    <position joint="h1" kp="5"/>
    <general joint="h2" dyntype="integrator" gainprm="1" delay="0.00390625" nsample="2" interp="linear"/>
  </actuator>
  <sensor>
    <framepos objtype="body" objname="h" delay="0.0078125" nsample="3"/>
    <jointpos joint="h1" interval="0.0078125 0" nsample="2"/>
  </sensor>
</mujoco>""",
}

PROFILE = gen.profile(
  nbody=(2, 7),
  p_mocap=0.5,
  actuators=3,
  act_kinds=("motor", "position", "general", "intvelocity"),
  act_trn=("joint",),
  act_ball=False,
  equality=3,
  eq_kinds=("connect", "weld", "joint"),
  nuserdata=4,
  sensors=2,
  sensor_kinds=("jointpos", "framepos"),
  delays=0.5,
  timestep=(0.00390625,),
)

NAMED = {
  "PHYSICS": int(mujoco.mjtState.mjSTATE_PHYSICS),
  "FULLPHYSICS": int(mujoco.mjtState.mjSTATE_FULLPHYSICS),
  "USER": int(mujoco.mjtState.mjSTATE_USER),
  "INTEGRATION": int(mujoco.mjtState.mjSTATE_INTEGRATION),
}


def cases(tier, seed):
  out = []
  fixed = ["F1", "F2", "G"]
  if tier == "quick":
    for mname in fixed:
      out.append({"id": f"{mname}_{seed}_bits", "model": mname, "seed": seed * 1000 + 1, "sigs": "bits", "weight": 1})
      for c in range(4):
        out.append({"id": f"{mname}_{seed}_s{c}", "model": mname, "seed": seed * 1000 + 10 + c, "sigs": "sample", "n": 150, "weight": 3})
    for i in range(20):
      out.append({"id": f"gen{seed}_{i}", "model": "gen", "gseed": seed * 100000 + i, "seed": seed * 1000 + 100 + i, "sigs": "sample", "n": 60, "weight": 2})
  else:
    chunk = 256
    for mname in fixed:
      out.append({"id": f"{mname}_{seed}_bits", "model": mname, "seed": seed * 1000 + 1, "sigs": "bits", "weight": 1})
      for c in range((1 << NS) // chunk):
        out.append({"id": f"{mname}_{seed}_x{c}", "model": mname, "seed": seed * 1000 + 10 + c, "sigs": "range", "lo": c * chunk, "hi": (c + 1) * chunk, "weight": 5})
    for i in range(300):
      out.append({"id": f"gen{seed}_{i}", "model": "gen", "gseed": seed * 100000 + i, "seed": seed * 1000 + 100 + i, "sigs": "sample", "n": 60, "weight": 2})
  return out


def _model(case):
  if case["model"] in FIXED:
    xml = FIXED[case["model"]]
    return xml, mujoco.MjModel.from_xml_string(xml), ["fixed:" + case["model"]]
  if case["model"] == "G":
    xml, mjm, feat = S.build(4242, PROFILE, user_act=1, delay_act=1, delay_sens=1, plain_motor=1)
    return xml, mjm, ["fixed:G"] + (feat or [])
  xml, mjm, feat = S.build(case["gseed"], PROFILE, user_act=int(case["gseed"] % 2), delay_act=1, delay_sens=int(case["gseed"] % 3 == 0), plain_motor=1)
  return xml, mjm, feat


def _rand_state(mjm, rng):
  st = gen.sample_state(mjm, rng, quat_scale=True)
  st["qacc_warmstart"] = rng.normal(size=mjm.nv).astype(np.float32)
  st["history"] = rng.normal(size=mjm.nhistory).astype(np.float32)
  if mjm.nuserdata and "userdata" not in st:
    st["userdata"] = rng.normal(size=mjm.nuserdata).astype(np.float32)
  return st


def _mj_of(mjm, st):
  mjd = mujoco.MjData(mjm)
  mw.apply_state_mj(mjm, mjd, st)
  if mjm.nhistory:
    mjd.history[:] = st["history"]
  return mjd


def _data_of(mjm, m, states):
  d = mw.make_data(mjm, m, states)
  if mjm.nhistory:
    S.set_field(d, "history", np.stack([s["history"] for s in states]))
  return d


def _mj_fields(mjm, mjd):
  out = {}
  for k in FIELDS:
    if k == "time":
      out[k] = np.float32(mjd.time)
    elif k == "eq_active":
      out[k] = np.array(mjd.eq_active, dtype=bool)
    else:
      out[k] = np.array(getattr(mjd, k), dtype=np.float32).reshape(-1)
  return out


def _warp_fields(d):
  out = {}
  for k in FIELDS:
    out[k] = np.array(mw.npy(getattr(d, k)))
  return out


def _sigs(case, rng):
  if case["sigs"] == "bits":
    return [1 << i for i in range(NS)] + list(NAMED.values()) + [0]
  if case["sigs"] == "range":
    return list(range(case["lo"], case["hi"]))
  return [int(x) for x in rng.integers(0, 1 << NS, size=case["n"])]


def _check_invalid(rec, mjm, m, d, nworld):
  import mujoco_warp as mjw
  import warp as wp

  full = mujoco.mj_stateSize(mjm, (1 << NS) - 1)
  for sig in (-1, -5, -(2**31), 1 << NS, (1 << NS) + 5, 1 << 20):
    try:
      mujoco.mj_stateSize(mjm, sig)
      continue  # MuJoCo accepts: not an invalid signature
    except Exception:
      pass
    for api in ("get_state", "set_state"):
      buf = wp.zeros((nworld, full + 8), dtype=float)
      before = _warp_fields(d)
      rec.check()
      try:
        getattr(mjw, api)(m, d, buf, sig)
        accepted = True
      except Exception:
        accepted = False
        rec.count("invalid_sig_rejected")
      if accepted:
        if sig < 0:
          rec.viol("state:negative-sig-accepted", f"{api}(sig={sig}) returned normally; mujoco.mj_stateSize raises 'invalid state signature {sig} < 0'")
          rec.count("F7_negative_sig")
        else:
          rec.viol("state:oversize-sig-accepted", f"{api}(sig={sig}) returned normally although sig >= 2^{NS}")
        if api == "set_state":
          # an accepted invalid set_state has scribbled zeros over the state: restore for the rest of the case
          for k, v in before.items():
            if v.size:
              S.set_field(d, k, v)


def run_case(case):
  import mujoco_warp as mjw
  import warp as wp

  rec = core.Rec(case)
  rng = np.random.default_rng(case["seed"])
  xml, mjm, feat = _model(case)
  if mjm is None:
    rec.rejected = "mujoco compile"
    return rec.result()
  try:
    m = mw.put_model(mjm)
  except (NotImplementedError, ValueError) as e:
    rec.rejected = f"put_model: {e}"[:200]
    return rec.result()
  nworld = int(rng.integers(2, 5))
  # source Data (for get) and target Data (for set) with their MuJoCo mirrors
  st_src = [_rand_state(mjm, rng) for _ in range(nworld)]
  st_dst = [_rand_state(mjm, rng) for _ in range(nworld)]
  d_src = _data_of(mjm, m, st_src)
  d_dst = _data_of(mjm, m, st_dst)
  mj_src = [_mj_of(mjm, s) for s in st_src]
  mj_dst = [_mj_of(mjm, s) for s in st_dst]
  src_fields0 = _warp_fields(d_src)
  sizes = {k: int(np.asarray(v[0]).size) for k, v in src_fields0.items()}
  ncomp = sum(1 for v in sizes.values() if v > 0)
  full = mujoco.mj_stateSize(mjm, (1 << NS) - 1)

  sigs = _sigs(case, rng)
  for sig in sigs:
    size = mujoco.mj_stateSize(mjm, sig)
    use_mask = rng.random() < 0.67
    mask = rng.random(nworld) < 0.6 if use_mask else np.ones(nworld, bool)
    active = wp.array(mask, dtype=bool) if use_mask else None
    ctx = f"sig={sig} ({sig:#06x}) size={size} mask={mask.astype(int).tolist() if use_mask else None}"

    # ---------------- get_state vs mj_getState
    width = size + 3
    buf = wp.array(np.full((nworld, width), SENT, dtype=np.float32), dtype=float)
    mjw.get_state(m, d_src, buf, sig, active)
    got = buf.numpy()
    for w in range(nworld):
      rec.check()
      if mask[w]:
        ref = np.zeros(size)
        mujoco.mj_getState(mjm, mj_src[w], ref, sig)
        ref32 = ref.astype(np.float32)
        if got[w, :size].tobytes() != ref32.tobytes():
          bad = np.nonzero(got[w, :size] != ref32)[0]
          rec.viol("state:get_state-differs-from-mj_getState", f"get_state world {w} differs from mj_getState at {bad[:6].tolist()} (of {size}): {got[w, bad[:3]]} vs {ref32[bad[:3]]}; {ctx}")
        if not np.all(got[w, size:] == SENT):
          rec.viol("state:get_state-writes-beyond-stateSize", f"get_state world {w} wrote beyond mj_stateSize={size}; {ctx}")
      else:
        if not np.all(got[w] == SENT):
          rec.viol("state:get_state-writes-inactive-world", f"get_state wrote row of inactive world {w}; {ctx}")
    # get_state must not modify Data
    rec.check()
    now = _warp_fields(d_src)
    for k in FIELDS:
      if now[k].tobytes() != src_fields0[k].tobytes():
        rec.viol("state:get_state-modifies-data", f"get_state changed Data.{k}; {ctx}")

    # ---------------- set_state vs mj_setState (mirrors evolve in lock-step), then round trip
    x = np.zeros((nworld, max(size, 1)), dtype=np.float32)
    donors = [_mj_of(mjm, _rand_state(mjm, rng)) for _ in range(nworld)]
    for w in range(nworld):
      v = np.zeros(size)
      mujoco.mj_getState(mjm, donors[w], v, sig)
      x[w, :size] = v.astype(np.float32)
    xin = wp.array(x[:, :size] if size else np.zeros((nworld, 0), np.float32), dtype=float, shape=(nworld, size))
    before = _warp_fields(d_dst)
    mjw.set_state(m, d_dst, xin, sig, active)
    after = _warp_fields(d_dst)
    for w in range(nworld):
      rec.check()
      if mask[w]:
        mujoco.mj_setState(mjm, mj_dst[w], x[w, :size].astype(np.float64), sig)
        exp = _mj_fields(mjm, mj_dst[w])
        for k in FIELDS:
          a = np.asarray(after[k][w]).reshape(-1)
          if a.tobytes() != np.asarray(exp[k]).reshape(-1).tobytes():
            touched = "selected" if before[k][w].tobytes() != np.asarray(exp[k]).reshape(-1).tobytes() else "NOT selected"
            rec.viol("state:set_state-differs-from-mj_setState", f"after set_state, Data.{k} of world {w} differs from mj_setState mirror (component {touched} by sig); {ctx}")
      else:
        for k in FIELDS:
          if after[k][w].tobytes() != before[k][w].tobytes():
            rec.viol("state:set_state-writes-inactive-world", f"set_state changed Data.{k} of inactive world {w}; {ctx}")
    buf2 = wp.array(np.full((nworld, width), SENT, dtype=np.float32), dtype=float)
    mjw.get_state(m, d_dst, buf2, sig, active)
    back = buf2.numpy()
    for w in range(nworld):
      if mask[w]:
        rec.check()
        if back[w, :size].tobytes() != x[w, :size].tobytes():
          bad = np.nonzero(back[w, :size] != x[w, :size])[0]
          rec.viol("state:roundtrip-lossy", f"get_state(set_state(x)) != x for world {w} at {bad[:6].tolist()}; {ctx}")
    rec.count("signatures_checked")
    rec.cover("mask:" + ("bool" if use_mask else "none"), 1)

  _check_invalid(rec, mjm, m, d_src, nworld)

  for f in feat or []:
    rec.cover("features", f)
  rec.cover("components_nonempty", [k for k, v in sizes.items() if v > 0])
  rec.cover("signatures", len(sigs))
  rec.cover("single_bits", [f"bit{int(np.log2(s))}" for s in sigs if s and s & (s - 1) == 0] if case["sigs"] == "bits" else [])
  if case["sigs"] == "range":
    rec.cover("exhaustive_signatures:" + case["model"], case["hi"] - case["lo"])
  if full >= 20 and ncomp >= 6:
    rec.nontrivial(xml, case["sigs"], case.get("lo", 0), *[s["qpos"] for s in st_src])
  rec.sample = {"model": case["model"], "nworld": nworld, "sizes": sizes, "full_state_size": full, "first_sigs": sigs[:6]}
  return rec.result()


def requirements(agg, tier):
  unmet = []
  cov = agg["cover"]
  comps = set(cov.get("components_nonempty", []))
  for k in FIELDS:
    if k not in comps:
      unmet.append(f"state component never non-empty: {k}")
  bits = set(cov.get("single_bits", []))
  if len(bits) < NS:
    unmet.append(f"only {len(bits)} of {NS} single-bit signatures exercised")
  if cov.get("mask:bool", 0) < 50 or cov.get("mask:none", 0) < 50:
    unmet.append("active=None / bool masks exercised fewer than 50 times each")
  if agg["tally"].get("invalid_sig_rejected", 0) + agg["tally"].get("F7_negative_sig", 0) < 10:
    unmet.append("invalid signatures probed fewer than 10 times")
  if tier == "thorough":
    for mname in ("F1", "F2", "G"):
      if cov.get("exhaustive_signatures:" + mname, 0) < (1 << NS):
        unmet.append(f"exhaustive sweep of model {mname} incomplete: {cov.get('exhaustive_signatures:' + mname, 0)} of {1 << NS}")
  if agg["distinct"] < 10:
    unmet.append("fewer than 10 distinct non-trivial cases")
  return unmet
