"""C25 Solver termination is correctly reported and transparent.

Metamorphic monitor without access to solver internals: a world's iteration count does not depend on the
iteration limit, so a reference run with a huge limit tells, per world, how many iterations are needed
(niter_inf).  For every limit N: solver_niter <= N; the ITERATIONS overflow bit of world w is set exactly when
niter_inf[w] > N; for N >= niter_inf[w] the world's result is bit-identical to the reference (continuing the
loop for other worlds must not touch a converged world); graph_conditional on/off give identical results.
"""

import numpy as np

from mon import cmp, core, meta, mw, scenes

ID = "C25"
LEVEL = "exploration"
TECHNIQUE = "runtime monitoring: metamorphic sweep of the iteration limit / graph-conditional switch against a huge-limit reference run"
RULE = (
  "case=(scene, 3-4 worlds whose states need different iteration counts incl. a deeply penetrating 'slow' world, solver, tolerance): "
  "limits N in {0,1,2,niter_inf-1,niter_inf,niter_inf+1,60} x graph_conditional in {on,off}. Non-trivial: worlds need different "
  "iteration counts (max-min>=1) and at least one world needs >=2; distinct by hash(scene, states, tolerance)."
)
ASSUMPTIONS = [
  "reference limit 100 iterations; worlds that do not converge within 100 are only checked for niter<=N and bit set",
  "on the CPU device wp.capture_while runs as a host loop: graph_conditional=True stops when all worlds are done, False runs the fixed loop",
]
BUDGET = {"quick": 200, "thorough": 2000}
ITER_BIT = 1 << 9


def cases(tier, seed):
  out = []
  tols = (1e-8, 1e-6, 1e-4, 1e-3, 1e-10)
  nrep = 1 if tier == "quick" else 5
  for r in range(nrep):
    for k, (p, opt) in enumerate(scenes.REPO[:9]):
      out.append({"id": f"repo{seed}_{k}_{r}", "scene": {"kind": "repo", "path": p, "opt": opt}, "seed": seed * 1000 + 73 * r + k, "tol": tols[(k + r) % 5], "nworld": 3 + (k + r) % 2, "weight": 3})
  n = 36 if tier == "quick" else 600
  for i in range(n):
    prof = ("full", "free", "joints")[i % 3]
    out.append({"id": f"gen{seed}_{i}", "scene": {"kind": "gen", "seed": seed * 100000 + i, "profile": prof}, "seed": seed * 100000 + i, "tol": tols[i % 5], "nworld": 3 + i % 2, "weight": 1})
  return out


def _fwd(mjw, mjm, m, states, N, gc):
  m.opt.iterations = int(N)
  m.opt.graph_conditional = bool(gc)
  d = mw.make_data(mjm, m, states)
  d.overflow.zero_()
  mjw.forward(m, d)
  return {
    "niter": mw.npy(d.solver_niter).copy(),
    "overflow": mw.npy(d.overflow).copy(),
    "qacc": mw.npy(d.qacc).copy(),
    "force": mw.npy(d.efc.force).copy(),
    "qfrc_constraint": mw.npy(d.qfrc_constraint).copy(),
    "nefc": mw.npy(d.nefc).copy(),
  }


def run_case(case):
  import warp as wp

  import mujoco_warp as mjw
  from mon import gen

  rec = core.Rec(case)
  rng = np.random.default_rng(case["seed"])
  label, mjm, feats = scenes.scene(case["scene"])
  if mjm is None:
    rec.rejected = "mujoco compile"
    return rec.result()
  mjm.opt.tolerance = case["tol"]
  try:
    m = mw.put_model(mjm)
  except (NotImplementedError, ValueError) as e:
    rec.rejected = f"put_model: {e}"[:200]
    return rec.result()
  nworld = case["nworld"]
  states = scenes.settle_states(mjm, rng, nworld, steps=(10, 0, 30, 3))
  h = gen.sample_state(mjm, rng, vel=5.0, quat_scale=False)
  h["qpos"] = np.array(mjm.qpos0, dtype=np.float32)
  states[1] = h  # slow world
  for s in states:
    s.pop("qacc_warmstart", None)
  m.opt.ls_iterations = max(int(m.opt.ls_iterations), 50)
  ref = _fwd(mjw, mjm, m, states, 100, True)
  if (ref["overflow"] & 511).any():
    rec.inconcl("capacity overflow in reference run")
    return rec.result()
  ninf = ref["niter"]
  conv = (ref["overflow"] & ITER_BIT) == 0
  limits = sorted({0, 1, 2, 60} | {int(x) + dlt for x in ninf[conv] for dlt in (-1, 0, 1) if x + dlt >= 0})
  limits = limits[:9]
  for N in limits:
    for gc in (True, False):
      out = _fwd(mjw, mjm, m, states, N, gc)
      tag = f"iterations={N} graph_conditional={gc}"
      for w in range(nworld):
        rec.check()
        if out["niter"][w] > N:
          rec.viol("niter>limit", f"solver_niter {out['niter'][w]} > limit {N} world {w} {tag}")
        if not conv[w]:
          # never converged within 100: must carry the bit for every N<=100 (if it has rows at all)
          if N > 0 and not (out["overflow"][w] & ITER_BIT):
            rec.viol("iterations-bit:missing:nonconverging", f"world {w} does not converge in 100 iterations but ITERATIONS bit is clear at limit {N}")
          continue
        expect = bool(ninf[w] > N)
        got = bool(out["overflow"][w] & ITER_BIT)
        if N == 0:
          rec.count("limit0_bit_" + str(got))
        elif expect != got:
          kind = "missing" if expect else "spurious"
          rec.viol(f"iterations-bit:{kind}", f"world {w} needs {ninf[w]} iterations, limit {N}: ITERATIONS bit is {got} (expected {expect}) {tag}, niter={out['niter'][w]}")
        else:
          rec.count("bit_as_expected")
        if N >= ninf[w] and N > 0:
          if out["niter"][w] != ninf[w]:
            rec.viol("niter-depends-on-limit", f"world {w}: niter {out['niter'][w]} at limit {N} vs {ninf[w]} with limit 100 {tag}")
          for k in ("qacc", "force", "qfrc_constraint"):
            c = cmp.first_divergence(rec, k, ref[k][w], out[k][w], sig_prefix="converged-world-changed:", ctx=f"world {w} {tag} (needs {ninf[w]})")
            rec.count("transparent_" + c)
  rec.cover("limits", [str(x) for x in limits])
  rec.cover("niter_inf", [str(int(x)) for x in ninf])
  rec.cover("worlds_nonconverging", int((~conv).sum()))
  for f in feats:
    rec.cover("features", f)
  if conv.sum() >= 2 and (ninf[conv].max() - ninf[conv].min()) >= 1 and ninf[conv].max() >= 2:
    rec.nontrivial(label, *[s["qpos"] for s in states], case["tol"])
  rec.sample = {"scene": case["scene"], "tolerance": case["tol"], "niter_inf": ninf, "converged": conv, "limits": limits, "nefc": ref["nefc"]}
  return rec.result()


def requirements(agg, tier):
  unmet = []
  t = agg["tally"]
  if t.get("bit_as_expected", 0) < 300:
    unmet.append("fewer than 300 (world, limit) bit checks")
  if t.get("transparent_bit", 0) + t.get("transparent_round", 0) < 200:
    unmet.append("fewer than 200 transparency comparisons")
  return unmet
