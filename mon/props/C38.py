"""C38 Compacted active-DOF solve is equivalent.

Metamorphic runtime monitor.  The same generated model is put twice, with and without the SLEEP flag (the flag routes
every solve through the compacted active-DOF path), and driven from identical states:
(equiv) every tree awake: qacc_smooth / qacc / qfrc_constraint / efc.force of mjw.forward and the stepped trajectory
        (with teleports that make and break contacts) must agree; also solver.smooth_solve_compact / solve_compact
        called directly on a flag-free Data that was given a DOF capacity;
(frozen) all subsets of trees forced asleep by writing tree_asleep self-cycles: frozen DOFs get qacc == 0,
        qfrc_constraint == 0 and keep qpos/qvel across a step, the compaction maps are mutually inverse over the awake
        DOFs, awake DOFs get the acceleration of the full solve;
(nvmax)  the same subsets with a DOF capacity swept through the active count: OverflowType.NVMAX is set exactly in the
        worlds whose active count exceeds the capacity, and worlds that fit reproduce the full-capacity result;
(history) ONE Data with a small requested capacity (mostly nvmax_pad < nv, scenes of >= 24 DOFs) walked through a
        history of awake sets that change at every call (trees owning high-index DOFs awake first and asleep later and the
        reverse, calls above capacity interleaved with calls that fit), through mjw.forward of the sleep-enabled model and
        through update_active_dofs + smooth_solve_compact + solve_compact called directly on a flag-free Data: after every
        call the NVMAX bit is set exactly above capacity, the maps are consistent, frozen DOFs are exactly zero and awake
        DOFs equal the full solve.
"""

import mujoco
import numpy as np

from mon import cmp, core, mw
from mon.props import _isl

ID = "C38"
LEVEL = "exploration"
RULE = (
  "case=(kind, scene seed): generated scene of 1-6 trees on a plane (free bodies, stacks, cart+pendulum, arms, limited "
  "sliders, frictionloss, equalities, limited tendons), dense or sparse Jacobian, pyramidal or elliptic cone. equiv: 6 worlds "
  "with random states, forward + 40 steps with teleports; frozen: one world per subset of trees (<=64) forced asleep; nvmax: "
  "the subsets x 3-5 capacities around the active DOF counts; history: scene of 4-8 trees with nv >= 24, one Data of 8 worlds with "
  "nvmax drawn so that 16*(nvmax//16+1) < nv (80%) or anywhere in [4, nv) (20%), 6 calls per world with a fresh random asleep "
  "group-subset each (worlds 0/1: high-index trees awake then low-index trees awake and the reverse), sleep-enabled forward or "
  "direct compact-solver calls on a flag-free Data. Non-trivial: >=1 world with active constraints (equiv), "
  ">=1 tree that stayed frozen and >=1 awake tree (frozen), >=1 world above and >=1 at/below capacity (nvmax), >=1 call above and "
  ">=1 within capacity and >=1 change of the awake set (history); distinct by hash(kind, xml, states)."
)
ASSUMPTIONS = [
  "the flag-free model (full solve) is the reference for the sleep-enabled model of the same XML at the same state",
  "round-off allowance 1e-4 relative, violation from 1e-2 relative (first-divergence rule, one-step horizon: the integration state of the sleep-enabled Data is re-synchronised to the reference after every step); both solves must report fewer iterations than the limit; worlds whose reference problem is degenerate (a row with D > 1e10, non-finite reference) are not judged",
  "trees are forced asleep the way the repository's tests do it: tree_asleep self-cycles written into Data + sleep.update_sleep",
  "c* workspace arrays of Data are scratch: in 'poison' cases they are overwritten with finite garbage before the observed call",
  "history cases: the full solve determines qfrc_constraint only up to its own stationarity residual g = M qacc - qfrc_smooth - qfrc_constraint (float32 termination of the full problem whose cost is dominated by other trees); differences up to 3|g| are not judged, residuals above 1e-3 relative make the field inconclusive; values of calls above capacity are not judged (documented as undefined), only the bit",
]
LEVEL_TEXT = (
  "Runtime metamorphic monitoring: compacted path versus full solve of the same model over generated states, exhaustive over "
  "the asleep/awake subsets of each scene, capacity swept through the exact-fit boundary."
)
BUDGET = {"quick": 300, "thorough": 1500}

ITER = 20
NCONMAX = 48
NJMAX = 192
NVMAX_BIT = 1 << 7
CW = ("cM", "cqLD", "crhs", "cx", "cJ", "cMa", "cqfrc_smooth", "cqacc_smooth", "cqacc_warmstart", "cqacc", "cqfrc_constraint")


def cases(tier, seed):
  out = []
  n = {"quick": (30, 24, 16, 14), "thorough": (400, 300, 160, 160)}[tier]
  for i in range(n[3]):
    out.append({"id": f"history{seed}_{i}", "kind": "history", "seed": seed * 100000 + 9000 + i, "direct": i % 2 == 1, "weight": 3})
  for i in range(n[1]):
    out.append({"id": f"frozen{seed}_{i}", "kind": "frozen", "seed": seed * 100000 + 3000 + i, "weight": 3})
  for i in range(n[2]):
    out.append({"id": f"nvmax{seed}_{i}", "kind": "nvmax", "seed": seed * 100000 + 6000 + i, "weight": 3})
  for i in range(n[0]):
    out.append({"id": f"equiv{seed}_{i}", "kind": "equiv", "seed": seed * 100000 + i, "poison": i % 3 == 2, "weight": 2})
  return out


def build(case, rec, ntree, p_touch, links=True, kinds=None, min_nv=0):
  """kinds / min_nv (history cases): tree-kind palette and the smallest DOF count wanted (the scene seed is advanced until met)."""
  for attempt in range(10):
    sseed = case["seed"] + 7919 * attempt
    rng = np.random.default_rng(sseed)
    jac = str(rng.choice(["dense", "sparse"]))
    cone = str(rng.choice(["pyramidal", "elliptic"]))
    integ = str(rng.choice(["Euler", "implicitfast"]))
    kw = dict(ntree=ntree, jac=jac, cone=cone, integrator=integ, iterations=ITER, p_touch=p_touch, links=links, tol=1e-9)
    if kinds is not None:
      kw["kinds"] = kinds
    xml_s, meta = _isl.sleep_scene(sseed, sleep=True, **kw)
    xml_f, _ = _isl.sleep_scene(sseed, sleep=False, **kw)
    try:
      mjm_s = mujoco.MjModel.from_xml_string(xml_s)
      mjm_f = mujoco.MjModel.from_xml_string(xml_f)
    except Exception as e:  # noqa
      if min_nv and attempt < 9:
        continue
      rec.rejected = f"mujoco compile: {e}"[:200]
      return None
    if mjm_s.nv >= min_nv and not (min_nv and mjm_s.nv > 60 and jac == "dense"):
      break
  if mjm_s.nv > 60 and jac == "dense":
    rec.rejected = "dense nv>60"
    return None
  try:
    ms, mf = mw.put_model(mjm_s), mw.put_model(mjm_f)
  except (NotImplementedError, ValueError) as e:
    rec.rejected = f"put_model: {e}"[:200]
    return None
  for f in meta["features"]:
    rec.cover("features", f)
  rec.cover("features", [f"jacobian:{jac}", f"cone:{cone}", f"integrator:{integ}"])
  return rng, xml_s, meta, mjm_s, mjm_f, ms, mf, integ


def rand_states(rng, mjm, n, vel=1.0, lift=0.1):
  sts = []
  for w in range(n):
    qpos = np.array(mjm.qpos0, dtype=np.float32)
    for j in range(mjm.njnt):
      a = mjm.jnt_qposadr[j]
      if mjm.jnt_type[j] == 0:
        qpos[a + 2] += np.float32(rng.uniform(-0.01, lift))
        qpos[a : a + 2] += rng.normal(size=2).astype(np.float32) * np.float32(0.01)
      else:
        qpos[a] += np.float32(rng.normal() * 0.2)
    qvel = (rng.normal(size=mjm.nv) * vel).astype(np.float32)
    st = {"qpos": qpos, "qvel": qvel}
    if mjm.neq:
      st["eq_active"] = rng.random(mjm.neq) < 0.5
    if mjm.nu:
      st["ctrl"] = rng.uniform(-1, 1, size=mjm.nu).astype(np.float32)
    sts.append(st)
  return sts


def poison(d, rng):
  import warp as wp

  for k in CW:
    a = getattr(d, k)
    if a.size:
      wp.copy(a, wp.array((rng.normal(size=a.shape) * 50.0).astype(np.float32), dtype=float))


def row_order(d, w):
  n = int(min(d.nefc.numpy()[w], d.njmax))
  return n


def other_viol(rec):
  """True if a violation other than the known stale-workspace mechanism was recorded (those do not stop the observation)."""
  return any(not v["sig"].startswith("compact:sparse:nefc0:") for v in rec.violations)


def sig_for(field, ms, nefc_w):
  if ms.is_sparse and nefc_w == 0:
    return "compact:sparse:nefc0:stale_qfrc_constraint"
  return f"compact_vs_full:{field}"


def force_bound(ds_np, df_np, w, nefc):
  """Per-row sensitivity bound of efc.force to the (round-off) difference of the two accelerations.

  force_i = -D_i * (J_i qacc - aref_i) on active rows, so |dforce_i| <= D_i * (|J_i| |dqacc| + float32 round-off of J_i qacc - aref_i).
  """
  J = ds_np["_J"][w][:nefc]
  D = np.abs(ds_np["_D"][w][:nefc]).astype(np.float64)
  aref = np.abs(ds_np["_aref"][w][:nefc]).astype(np.float64)
  qa, qb = ds_np["qacc"][w].astype(np.float64), df_np["qacc"][w].astype(np.float64)
  absJ = np.abs(J).astype(np.float64)
  nv = qa.size
  dq = absJ[:, :nv] @ np.abs(qa - qb)
  ro = 4e-7 * (absJ[:, :nv] @ np.maximum(np.abs(qa), np.abs(qb)) + aref)
  return D * (dq + ro)


def compare_world(rec, ms, ds_np, df_np, w, fields, ctx, dofs=None, tally="equiv", certify=None, ref_resid=None):
  """first-divergence comparison of one world; returns worst verdict.

  certify(w) (optional) re-runs the FULL solver warm-started at the compacted solution: 'stays' means the full solver
  accepts the compacted acceleration under its own termination rule (difference = solver termination noise).
  """
  worst = "bit"
  nefc = int(ds_np["nefc"][w])
  cert = None
  rank = {"bit": 0, "round": 1, "incon": 2, "viol": 3}
  for k in fields:
    a, b = ds_np[k][w], df_np[k][w]
    if ref_resid is not None and k == "qfrc_constraint" and not (ms.is_sparse and nefc == 0):
      # the reference determines qfrc_constraint only up to its own stationarity residual g = M qacc - qfrc_smooth -
      # qfrc_constraint (float32 termination of the FULL problem, whose cost is dominated by the other trees)
      aa, bb = (a[dofs], b[dofs]) if dofs is not None else (a, b)
      g = np.abs(ref_resid[w][dofs] if dofs is not None else ref_resid[w])
      if aa.size and np.all(np.isfinite(aa)) and np.all(np.isfinite(bb)) and np.all(np.isfinite(g)):
        sc = max(1.0, float(np.abs(aa).max()), float(np.abs(bb).max()))
        err = float(np.abs(aa.astype(np.float64) - bb.astype(np.float64)).max())
        allow = 3.0 * float(g.max())
        rec.worst("reference_residual_over_scale", float(g.max()) / sc)
        if err > 1e-4 * sc:
          if err <= allow + 1e-4 * sc:
            rec.check()
            rec.count(f"{tally}:{k}:explained_by_reference_residual")
            worst = max(worst, "round", key=rank.get)
            continue
          if allow >= 1e-3 * sc and err < 30.0 * (allow + 1e-4 * sc):
            rec.check()
            rec.inconcl(f"{k}: reference solve too far from stationarity to judge the difference")
            rec.count(f"{tally}:{k}:incon")
            worst = max(worst, "incon", key=rank.get)
            continue
    if certify is not None and k in ("qacc", "qfrc_constraint", "efc_force") and not (ms.is_sparse and nefc == 0):
      aa, bb = (a[:nefc], b[:nefc]) if k == "efc_force" else ((a[dofs], b[dofs]) if dofs is not None else (a, b))
      if k != "efc_force" and aa.size and np.all(np.isfinite(aa)) and np.all(np.isfinite(bb)):
        sc = max(1.0, float(np.abs(aa).max()), float(np.abs(bb).max()))
        if float(np.abs(aa.astype(np.float64) - bb.astype(np.float64)).max()) / sc > 1e-4:
          if cert is None:
            cert = certify(w)
          if cert == "stays":
            rec.check()
            rec.count(f"{tally}:{k}:explained_by_solver_termination")
            worst = max(worst, "round", key=lambda r: {"bit": 0, "round": 1, "incon": 2, "viol": 3}[r])
            continue
          if cert == "unclear":
            rec.check()
            rec.inconcl(f"{k}: differs beyond round-off, full solver neither accepts nor rejects the compacted solution")
            rec.count(f"{tally}:{k}:incon")
            worst = max(worst, "incon", key=lambda r: {"bit": 0, "round": 1, "incon": 2, "viol": 3}[r])
            continue
      elif k == "efc_force" and cert == "stays":
        rec.count(f"{tally}:{k}:explained_by_solver_termination")
        continue
    if k == "efc_force":
      a, b = a[:nefc], b[:nefc]
      oa = ds_np.get("_order", {}).get(w)
      ob = df_np.get("_order", {}).get(w)
      if oa is not None and ob is not None:
        a, b = a[oa], b[ob]
      if a.size and "_J" in ds_np and a.tobytes() != b.tobytes():
        err = np.abs(a.astype(np.float64) - b.astype(np.float64))
        scale = max(1.0, float(np.abs(a).max()), float(np.abs(b).max()))
        if err.max() / scale > 1e-4:
          # individual row forces are ill-conditioned in qacc (stiff rows): judge against the sensitivity bound
          bnd = force_bound(ds_np, df_np, w, nefc)
          if oa is not None:
            bnd = bnd[oa]
          excess = err - 20.0 * bnd
          rec.check()
          rec.worst("efc_force_over_sensitivity_bound", float((err / (20.0 * bnd + 1e-4 * scale)).max()))
          if excess.max() <= 1e-4 * scale:
            rec.count(f"{tally}:efc_force:explained_by_qacc_roundoff")
            r = "round"
          elif excess.max() >= 1e-2 * scale:
            i = int(np.argmax(excess))
            rec.viol(sig_for("efc_force", ms, nefc), f"efc_force row {i}: {a[i]:.6g} vs {b[i]:.6g}, beyond 20x the sensitivity bound {bnd[i]:.3g} of that row {ctx}", index=i)
            r = "viol"
          else:
            rec.inconcl("efc_force: between sensitivity bound and violation line")
            r = "incon"
          rec.count(f"{tally}:{k}:{r}")
          order = {"bit": 0, "round": 1, "incon": 2, "viol": 3}
          if order[r] > order[worst]:
            worst = r
          continue
    elif dofs is not None:
      a, b = a[dofs], b[dofs]
    if k in ("qacc", "qfrc_constraint", "efc_force", "qacc_smooth"):
      # solver outputs: relative to the field scale of the full solve
      r = cmp.first_divergence(rec, k, a, b, sig_prefix="", ctx=ctx)
      if r == "viol":
        # re-label with the mechanism signature
        v = rec.violations[-1]
        v["sig"] = sig_for(k, ms, nefc)
        if v["sig"].startswith("compact:sparse:nefc0:") and any(u["sig"] == v["sig"] for u in rec.violations[:-1]):
          rec.violations.pop()  # known mechanism: one witness per field and case is enough
    else:
      r = cmp.first_divergence(rec, k, a, b, sig_prefix="compact_vs_full:", ctx=ctx)
    rec.count(f"{tally}:{k}:{r}")
    order = {"bit": 0, "round": 1, "incon": 2, "viol": 3}
    if order[r] > order[worst]:
      worst = r
  return worst


def snap(d, names, m=None):
  out = {}
  for k in names:
    out[k] = (d.efc.force if k == "efc_force" else getattr(d, k)).numpy().copy()
  if m is not None:
    out["_D"] = d.efc.D.numpy().copy()
    out["_aref"] = d.efc.aref.numpy().copy()
    if m.is_sparse:
      nw, nj, nv = d.nworld, d.njmax, m.nv
      J = np.zeros((nw, nj, nv), dtype=np.float32)
      rownnz, rowadr = d.efc.J_rownnz.numpy(), d.efc.J_rowadr.numpy()
      colind, vals = d.efc.J_colind.numpy().reshape(nw, -1), d.efc.J.numpy().reshape(nw, -1)
      nefc = np.minimum(d.nefc.numpy(), nj)
      for w in range(nw):
        for r in range(int(nefc[w])):
          a, n = int(rowadr[w, r]), int(rownnz[w, r])
          J[w, r, colind[w, a : a + n]] = vals[w, a : a + n]
      out["_J"] = J
    else:
      out["_J"] = d.efc.J.numpy()[:, :, : m.nv].copy()
  return out


FWD = ("nefc", "qacc_smooth", "qacc", "qfrc_constraint", "efc_force", "solver_niter")


def canon_rows(d, w):
  """Canonical keys + order of the rows of world w: contacts are identified by geom pair and position, not by pool slot."""
  n = int(min(d.nefc.numpy()[w], d.njmax))
  ty, ids = d.efc.type.numpy()[w][:n], d.efc.id.numpy()[w][:n]
  geom, pos = d.contact.geom.numpy(), d.contact.pos.numpy()
  keys, seen = [], {}
  for r in range(n):
    if int(ty[r]) in _isl.CONTACTS:
      c = int(ids[r])
      base = (int(ty[r]), int(geom[c][0]), int(geom[c][1])) + tuple(int(v) for v in np.round(pos[c] / 2e-4))
    else:
      base = (int(ty[r]), int(ids[r]), 0, 0, 0, 0)
    k = seen.get((base, int(ids[r])), 0)
    seen[(base, int(ids[r]))] = k + 1
    keys.append(base + (k,))
  order = sorted(range(n), key=lambda r: keys[r])
  return [keys[r] for r in order], np.array(order, dtype=int)


def structure_equal(ka, kb):
  return ka == kb


def integrate(mjw, m, d, integ):
  if integ == "Euler":
    mjw.euler(m, d)
  else:
    mjw.implicit(m, d)


class Certifier:
  """Runs the full (flag-free) solver warm-started at the compacted solution of the same state."""

  def __init__(self, mjw, mjm_f, mf, sts):
    self.mjw, self.mjm_f, self.mf, self.sts = mjw, mjm_f, mf, sts
    self.dp = None
    self.key = None
    self.xp = None

  def __call__(self, qpos, qvel, x_s, x_f, key):
    import warp as wp

    def fn(w):
      if self.key != key:
        if self.dp is None:
          self.dp = mw.make_data(self.mjm_f, self.mf, self.sts, nconmax=NCONMAX, njmax=NJMAX)
        wp.copy(self.dp.qpos, wp.array(qpos, dtype=float))
        wp.copy(self.dp.qvel, wp.array(qvel, dtype=float))
        wp.copy(self.dp.qacc_warmstart, wp.array(np.nan_to_num(x_s).astype(np.float32), dtype=float))
        self.mjw.forward(self.mf, self.dp)
        self.xp = self.dp.qacc.numpy().copy()
        self.key = key
      xs, xf, xp = x_s[w].astype(np.float64), x_f[w].astype(np.float64), self.xp[w].astype(np.float64)
      if not (np.all(np.isfinite(xs)) and np.all(np.isfinite(xp))):
        return "returns"
      dsf, dps, dpf = np.abs(xs - xf).max(), np.abs(xp - xs).max(), np.abs(xp - xf).max()
      if dps <= 0.5 * dsf:
        return "stays"
      if dpf <= 0.5 * dsf:
        return "returns"
      return "unclear"

    return fn


# ------------------------------------------------------------------------------------------ equiv


def run_equiv(case, rec):
  import mujoco_warp as mjw
  import warp as wp
  from mujoco_warp._src import island as island_mod
  from mujoco_warp._src import solver as solver_mod

  small = case["seed"] % 2 == 0
  b = build(case, rec, ntree=(1, 2) if small else (3, 6), p_touch=0.3)
  if b is None:
    return
  rng, xml, meta, mjm_s, mjm_f, ms, mf, integ = b
  W = 6
  sts = rand_states(rng, mjm_s, W, vel=float(rng.choice([0.0, 0.5, 2.0])))
  ds = mw.make_data(mjm_s, ms, sts, nconmax=NCONMAX, njmax=NJMAX)
  df = mw.make_data(mjm_f, mf, sts, nconmax=NCONMAX, njmax=NJMAX)
  prng = np.random.default_rng(case["seed"] + 99)
  cert = Certifier(mjw, mjm_f, mf, sts)
  any_constraints = False
  nsteps = 30
  tele = sorted(set(int(v) for v in rng.integers(3, nsteps, size=3)))
  alive = np.ones(W, dtype=bool)
  for s in range(nsteps + 1):
    if s in tele:
      # teleport every free body of some worlds up or back down (breaks / makes contacts); same in both Data
      qs = ds.qpos.numpy().copy()
      up = rng.random(W) < 0.6
      for j in range(mjm_s.njnt):
        if mjm_s.jnt_type[j] == 0:
          a = mjm_s.jnt_qposadr[j]
          qs[up, a + 2] += np.float32(0.5)
      wp.copy(ds.qpos, wp.array(qs, dtype=float))
      qf = df.qpos.numpy().copy()
      for j in range(mjm_s.njnt):
        if mjm_s.jnt_type[j] == 0:
          a = mjm_s.jnt_qposadr[j]
          qf[up, a + 2] += np.float32(0.5)
      wp.copy(df.qpos, wp.array(qf, dtype=float))
      rec.cover("teleports", int(up.sum()))
    if case["poison"]:
      poison(ds, prng)
    pre_q, pre_v = df.qpos.numpy().copy(), df.qvel.numpy().copy()
    mjw.forward(ms, ds)
    mjw.forward(mf, df)
    a, f = snap(ds, FWD + ("tree_awake", "ncdof"), ms), snap(df, FWD)
    a["_order"], f["_order"] = {}, {}
    for w in range(W):
      if not alive[w]:
        continue
      ctx = f"[world {w} step {s} nefc {int(a['nefc'][w])} sparse {bool(ms.is_sparse)} poison {case['poison']}]"
      rec.check()
      if not np.all(a["tree_awake"][w] == 1):
        rec.viol("equiv:tree_asleep_with_tolerance_1e-9", f"a tree fell asleep although sleep_tolerance is 1e-9 and it moves {ctx}")
        alive[w] = False
        continue
      if int(a["ncdof"][w]) != mjm_s.nv:
        rec.viol("ncdof", f"every tree awake but ncdof {a['ncdof'][w]} != nv {mjm_s.nv} {ctx}")
        alive[w] = False
        continue
      (ka, oa), (kb, ob) = canon_rows(ds, w), canon_rows(df, w)
      if not structure_equal(ka, kb):
        rec.count("equiv:ungated_row_structure")
        alive[w] = False
        continue
      a["_order"][w], f["_order"][w] = oa, ob
      if int(a["solver_niter"][w]) >= ITER or int(f["solver_niter"][w]) >= ITER:
        rec.count("equiv:ungated_iterlimit")
        alive[w] = False
        continue
      nw = int(a["nefc"][w])
      if not np.all(np.isfinite(f["qacc"][w])) or (nw and float(np.abs(a["_D"][w][:nw]).max()) > 1e10):
        # the reference problem itself is degenerate (e.g. a tendon limit row with zero Jacobian => D ~ 1e15) or has blown up
        rec.count("equiv:ungated_degenerate_reference")
        alive[w] = False
        continue
      if nw:
        any_constraints = True
        rec.count("equiv:worlds_with_constraints")
      else:
        rec.count("equiv:worlds_without_constraints")
      r = compare_world(rec, ms, a, f, w, ("qacc_smooth", "qacc", "qfrc_constraint", "efc_force"), ctx, certify=cert(pre_q, pre_v, a["qacc"], f["qacc"], s))
      if r in ("viol", "incon"):
        alive[w] = False  # first divergence: later steps of this world are not judged
    if other_viol(rec) or not alive.any():
      break
    integrate(mjw, ms, ds, integ)
    integrate(mjw, mf, df, integ)
    qa, qb = snap(ds, ("qpos", "qvel")), snap(df, ("qpos", "qvel"))
    for w in range(W):
      if alive[w]:
        r = compare_world(rec, ms, {**qa, "nefc": a["nefc"]}, {**qb, "nefc": f["nefc"]}, w, ("qpos", "qvel"), f"[world {w} after step {s}]", tally="equiv_step")
        if r in ("viol", "incon"):
          alive[w] = False
    # re-synchronise the integration state (round-off drift would otherwise be amplified by stiff new contacts and be
    # mistaken for a difference of the two solvers); workspaces and everything else of each Data keep their own history
    for k in ("qpos", "qvel", "qacc_warmstart", "act", "time"):
      if getattr(df, k).size:
        wp.copy(getattr(ds, k), getattr(df, k))
  # ---- direct call of the compact solvers on a flag-free Data with a DOF capacity (as the repository's tests do)
  dn = mw.make_data(mjm_f, mf, sts, nconmax=NCONMAX, njmax=NJMAX, nvmax=mjm_f.nv)
  mjw.forward(mf, dn)
  base = snap(dn, ("nefc", "qacc_smooth", "qacc", "qfrc_constraint", "solver_niter"))
  wp.copy(dn.tree_awake, wp.array(np.ones((W, mjm_f.ntree), dtype=np.int32), dtype=int))
  island_mod.update_active_dofs(mf, dn)
  solver_mod.smooth_solve_compact(mf, dn)
  got_s = dn.qacc_smooth.numpy().copy()
  solver_mod.solve_compact(mf, dn)
  got = snap(dn, ("nefc", "qacc", "qfrc_constraint", "solver_niter"))
  for w in range(W):
    ctx = f"[direct solve_compact world {w} nefc {int(base['nefc'][w])}]"
    if int(base["solver_niter"][w]) >= ITER or int(got["solver_niter"][w]) >= ITER:
      rec.count("direct:ungated_iterlimit")
      continue
    nb = int(base["nefc"][w])
    if not np.all(np.isfinite(base["qacc"][w])) or (nb and float(np.abs(dn.efc.D.numpy()[w][:nb]).max()) > 1e10):
      rec.count("direct:ungated_degenerate_reference")
      continue
    compare_world(rec, mf, {"qacc_smooth": got_s, **got}, base, w, ("qacc_smooth", "qacc", "qfrc_constraint"), ctx, tally="direct")
  rec.cover("equiv_worlds", W)
  rec.cover("kind:equiv", 1)
  if case["poison"]:
    rec.cover("poisoned_workspace_cases", 1)
  if any_constraints:
    rec.nontrivial("equiv", xml, *[s["qpos"] for s in sts], *[s["qvel"] for s in sts])
  rec.sample = {"kind": "equiv", "seed": case["seed"], "ntree": int(mjm_s.ntree), "nv": int(mjm_s.nv), "sparse": bool(ms.is_sparse), "features": meta["features"], "poison": case["poison"], "teleport_steps": tele}


# ------------------------------------------------------------------------------------------ frozen / nvmax


def subset_states(rng, mjm, base, subsets):
  """One state per subset (bitmask of trees forced asleep): sleepers get zero velocity, the rest random velocity."""
  sts = []
  for mask in subsets:
    qvel = (rng.normal(size=mjm.nv) * 0.5).astype(np.float32)
    for t in range(mjm.ntree):
      if (mask >> t) & 1:
        qvel[mjm.tree_dofadr[t] : mjm.tree_dofadr[t] + mjm.tree_dofnum[t]] = 0
    st = dict(base)
    st["qvel"] = qvel
    sts.append(st)
  return sts


def island_groups(mjw, mjm_f, mf, base):
  """Groups of trees that are coupled by a constraint in the base configuration (they must share a sleep cycle)."""
  d1 = mw.make_data(mjm_f, mf, [dict(base, qvel=np.zeros(mjm_f.nv, np.float32))], nconmax=NCONMAX, njmax=NJMAX)
  mjw.fwd_position(mf, d1)
  R = _isl.Rows(mf, d1)
  rows, cols = R.world(mjm_f, 0)
  rt = _isl.row_trees(mjm_f, rows, d1.contact.geom.numpy(), cols)
  lab = _isl.components(mjm_f.ntree, rt)
  groups = [[int(t) for t in np.nonzero(lab == k)[0]] for k in range(int(lab.max()) + 1)] + [[int(t)] for t in np.nonzero(lab < 0)[0]]
  return sorted(groups)


def force_asleep(ms, d, mjm, subsets, groups):
  """Writes one sleep cycle per selected group (ring over its trees), the way the repository's tests force sleep."""
  import warp as wp
  from mujoco_warp._src import sleep as sleep_mod

  ta = np.full((len(subsets), mjm.ntree), -(1 + int(mujoco.mjMINAWAKE)), dtype=np.int32)
  for w, mask in enumerate(subsets):
    for g in groups:
      if all((mask >> t) & 1 for t in g):
        for i, t in enumerate(g):
          ta[w, t] = g[(i + 1) % len(g)]
  wp.copy(d.tree_asleep, wp.array(ta, dtype=int))
  sleep_mod.update_sleep(ms, d)
  return ta


def check_compaction_maps(rec, mjm, d, w, awake, ctx):
  rec.check()
  dc = d.dof_cdof.numpy()[w][: mjm.nv]
  cd = d.cdof_dof.numpy()[w]
  ncdof = int(d.ncdof.numpy()[w])
  act = np.concatenate([np.arange(mjm.tree_dofadr[t], mjm.tree_dofadr[t] + mjm.tree_dofnum[t]) for t in range(mjm.ntree) if awake[t]] + [np.zeros(0, int)]).astype(int)
  if ncdof != len(act):
    rec.viol("ncdof", f"ncdof {ncdof} != DOFs of the awake trees {len(act)} {ctx}")
    return False
  inact = np.setdiff1d(np.arange(mjm.nv), act)
  if np.any(dc[inact] != -1):
    rec.viol("dof_cdof:inactive", f"inactive DOFs have compact indices {dc[inact].tolist()} {ctx}")
    return False
  if not np.array_equal(np.sort(dc[act]), np.arange(ncdof)) or not np.array_equal(cd[dc[act]], act):
    rec.viol("dof_cdof:not_inverse", f"dof_cdof / cdof_dof are not mutually inverse over the active DOFs: {dc.tolist()} / {cd.tolist()} {ctx}")
    return False
  if np.any(cd[ncdof:] != -1):
    rec.viol("cdof_dof:tail", f"cdof_dof beyond ncdof is not -1: {cd.tolist()} {ctx}")
    return False
  return True


def awake_rows(mjm, R, d, w, awake):
  """Sorted multiset of the constraint rows that touch an awake tree: (type, id or contact geom pair)."""
  rows, cols = R.world(mjm, w)
  geom = d.contact.geom.numpy()
  rt = _isl.row_trees(mjm, rows, geom, cols)
  out = []
  for r in range(rows["nefc"]):
    if any(awake[t] for t in rt[r]):
      ty, i = int(rows["type"][r]), int(rows["id"][r])
      out.append((ty,) + (tuple(sorted(int(g) for g in geom[i])) if ty in _isl.CONTACTS else (i,)))
  return sorted(out)


def run_frozen(case, rec, sweep=False):
  import mujoco_warp as mjw

  b = build(case, rec, ntree=(2, 6), p_touch=0.15, links=case["seed"] % 3 == 0)
  if b is None:
    return
  rng, xml, meta, mjm_s, mjm_f, ms, mf, integ = b
  nt = mjm_s.ntree
  base = rand_states(rng, mjm_s, 1, vel=0.0, lift=0.0)[0]
  if mjm_s.neq:
    base["eq_active"] = rng.random(mjm_s.neq) < 0.4
  groups = island_groups(mjw, mjm_f, mf, base)
  never = [t for t in range(nt) if mjm_s.tree_sleep_policy[t] == int(mujoco.mjtSleepPolicy.mjSLEEP_AUTO_NEVER)]
  groups_ok = [g for g in groups if not any(t in never for t in g)]
  ng = len(groups_ok)
  gsub = list(range(2 ** ng))
  if len(gsub) > 64:
    gsub = [0, 2 ** ng - 1] + [int(v) for v in rng.choice(np.arange(1, 2 ** ng - 1), size=62, replace=False)]
  subsets = []
  for gm in gsub:
    mask = 0
    for gi, g in enumerate(groups_ok):
      if (gm >> gi) & 1:
        for t in g:
          mask |= 1 << t
    subsets.append(mask)
  W = len(subsets)
  sts = subset_states(rng, mjm_s, base, subsets)
  df = mw.make_data(mjm_f, mf, sts, nconmax=NCONMAX, njmax=NJMAX)
  mjw.forward(mf, df)
  full = snap(df, FWD)

  def observe(nvmax):
    caps = {} if nvmax is None else {"nvmax": nvmax}
    ds = mw.make_data(mjm_s, ms, sts, nconmax=NCONMAX, njmax=NJMAX, **caps)
    # populate qacc / qfrc_constraint / warmstart of every tree first (all awake), so that "frozen => zero" is observable
    mjw.forward(ms, ds)
    force_asleep(ms, ds, mjm_s, subsets, groups_ok)
    ds.overflow.zero_()
    pre = snap(ds, ("qpos", "qvel"))
    mjw.forward(ms, ds)
    mid = snap(ds, FWD + ("tree_awake", "tree_asleep", "ncdof", "overflow"), ms)
    maps_ok = None
    return ds, pre, mid

  ds, pre, mid = observe(None)
  certf = [None]
  Rs, Rf = _isl.Rows(ms, ds), _isl.Rows(mf, df)
  if not sweep:
    nfro = nawk = 0
    for w in range(W):
      awake = mid["tree_awake"][w] == 1
      ctx = f"[subset {subsets[w]:#x} asleep after forward {np.nonzero(~awake)[0].tolist()} nefc {int(mid['nefc'][w])} sparse {bool(ms.is_sparse)}]"
      if not check_compaction_maps(rec, mjm_s, ds, w, awake, ctx):
        break
      rec.check()
      if int(mid["overflow"][w]) & NVMAX_BIT:
        rec.viol("nvmax:bit_set_at_full_capacity", f"NVMAX overflow bit set although nvmax == nv {ctx}")
        break
      fro = np.concatenate([np.arange(mjm_s.tree_dofadr[t], mjm_s.tree_dofadr[t] + mjm_s.tree_dofnum[t]) for t in range(nt) if not awake[t]] + [np.zeros(0, int)]).astype(int)
      act = np.setdiff1d(np.arange(mjm_s.nv), fro)
      if len(fro):
        nfro += 1
        for k in ("qacc", "qfrc_constraint", "qacc_smooth"):
          rec.check()
          if np.any(mid[k][w][fro] != 0):
            rec.viol(f"frozen:{k}_nonzero", f"frozen DOFs have {k} {mid[k][w][fro].tolist()} {ctx}")
      if len(act):
        nawk += 1
        if int(mid["solver_niter"][w]) >= ITER or int(full["solver_niter"][w]) >= ITER:
          rec.count("frozen:ungated_iterlimit")
        elif awake_rows(mjm_s, Rs, ds, w, awake) != awake_rows(mjm_s, Rf, df, w, awake):
          # e.g. trees woken by wake_equality get their contacts one step later (as in MuJoCo): different problem, not judged
          rec.count("frozen:ungated_awake_row_structure")
        elif not np.all(np.isfinite(full["qacc"][w])) or (int(mid["nefc"][w]) and float(np.abs(mid["_D"][w][: int(mid["nefc"][w])]).max()) > 1e10):
          rec.count("frozen:ungated_degenerate_reference")
        else:
          cf = Certifier(mjw, mjm_f, mf, sts)(pre["qpos"], pre["qvel"], mid["qacc"], full["qacc"], 0) if certf[0] is None else certf[0]
          certf[0] = cf
          compare_world(rec, ms, mid, full, w, ("qacc_smooth", "qacc", "qfrc_constraint"), ctx, dofs=act, tally="frozen_awake", certify=cf)
      if other_viol(rec):
        break
    # one integrator step: frozen DOFs keep qpos / qvel
    if not other_viol(rec):
      integrate(mjw, ms, ds, integ)
      post = snap(ds, ("qpos", "qvel", "tree_asleep"))
      for w in range(W):
        awake = mid["tree_awake"][w] == 1
        for t in range(nt):
          if awake[t]:
            continue
          rec.check()
          da = np.arange(mjm_s.tree_dofadr[t], mjm_s.tree_dofadr[t] + mjm_s.tree_dofnum[t])
          jn = [j for j in range(mjm_s.njnt) if mjm_s.body_treeid[mjm_s.jnt_bodyid[j]] == t]
          qa = np.concatenate([np.arange(mjm_s.jnt_qposadr[j], mjm_s.jnt_qposadr[j] + {0: 7, 1: 4, 2: 1, 3: 1}[int(mjm_s.jnt_type[j])]) for j in jn])
          if not np.array_equal(pre["qpos"][w][qa], post["qpos"][w][qa]) or np.any(post["qvel"][w][da] != 0):
            rec.viol("frozen:state_changed_by_step", f"frozen tree {t} changed across a step: dqpos {np.abs(pre['qpos'][w][qa] - post['qpos'][w][qa]).max():.3g} qvel {post['qvel'][w][da].tolist()} [subset {subsets[w]:#x}]")
            break
    rec.cover("subset_worlds", W)
    rec.cover("worlds_with_frozen_trees", nfro)
    rec.cover("worlds_with_awake_trees", nawk)
    woken = int(sum(((np.array([(subsets[w] >> t) & 1 for t in range(nt)]) == 1) & (mid["tree_awake"][w] == 1)).sum() for w in range(W)))
    rec.cover("forced_sleepers_woken_by_forward", woken)
    rec.cover("kind:frozen", 1)
    if nfro and nawk:
      rec.nontrivial("frozen", xml, *[s["qvel"] for s in sts])
    rec.cover("coupled_groups_with_2plus_trees", int(sum(len(g) > 1 for g in groups_ok)))
    rec.sample = {"kind": "frozen", "seed": case["seed"], "groups": groups_ok, "ntree": int(nt), "nv": int(mjm_s.nv), "sparse": bool(ms.is_sparse), "subsets": W, "features": meta["features"], "woken_by_forward": woken}
    return
  # ---- capacity sweep
  need = np.array([int(sum(mjm_s.tree_dofnum[t] for t in range(nt) if mid["tree_awake"][w][t] == 1)) for w in range(W)])
  cands = sorted(set(int(v) for v in np.concatenate([need - 1, need, need + 1]) if 0 <= v <= mjm_s.nv))
  # keep <= 5 capacities, always one inside the range of needs
  if len(cands) > 5:
    cands = sorted(set([cands[0], cands[len(cands) // 3], cands[len(cands) // 2], cands[2 * len(cands) // 3], cands[-1]]))
  above = atbelow = 0
  for k in cands:
    dk, _, mk = observe(k)
    for w in range(W):
      if not np.array_equal(mk["tree_awake"][w], mid["tree_awake"][w]):
        rec.count("nvmax:awake_set_differs_from_full_capacity")
        continue
      ctx = f"[nvmax {k} active DOFs {need[w]} subset {subsets[w]:#x} sparse {bool(ms.is_sparse)}]"
      bit = bool(int(mk["overflow"][w]) & NVMAX_BIT)
      rec.check()
      if need[w] > k:
        above += 1
        rec.cover("capacity_minus_need", [str(int(k - need[w]))] if k - need[w] >= -2 else [])
        if not bit:
          rec.viol("nvmax:bit_not_set", f"{need[w]} active DOFs exceed nvmax {k} but OverflowType.NVMAX is not set (overflow={int(mk['overflow'][w])}) {ctx}")
          return
      else:
        atbelow += 1
        rec.cover("capacity_minus_need", [str(int(k - need[w]))] if k - need[w] <= 2 else [])
        if bit:
          rec.viol("nvmax:bit_set_within_capacity", f"{need[w]} active DOFs fit nvmax {k} but OverflowType.NVMAX is set {ctx}")
          return
        if int(mk["ncdof"][w]) != need[w]:
          rec.viol("ncdof", f"ncdof {mk['ncdof'][w]} != {need[w]} {ctx}")
          return
        if int(mk["solver_niter"][w]) >= ITER or int(mid["solver_niter"][w]) >= ITER:
          rec.count("nvmax:ungated_iterlimit")
          continue
        (ka, oa), (kb, ob) = canon_rows(dk, w), canon_rows(ds, w)
        if ka != kb:
          rec.count("nvmax:ungated_row_structure")
          continue
        mk.setdefault("_order", {})[w] = oa
        mid.setdefault("_order", {})[w] = ob
        compare_world(rec, ms, mk, mid, w, ("qacc_smooth", "qacc", "qfrc_constraint", "efc_force"), ctx, tally="nvmax_fit")
        if other_viol(rec):
          return
  rec.cover("nvmax_worlds_above_capacity", above)
  rec.cover("nvmax_worlds_within_capacity", atbelow)
  rec.cover("capacities_tried", len(cands))
  rec.cover("kind:nvmax", 1)
  if above and atbelow:
    rec.nontrivial("nvmax", xml, tuple(cands))
  rec.sample = {"kind": "nvmax", "seed": case["seed"], "ntree": int(nt), "nv": int(mjm_s.nv), "capacities": cands, "active_dof_counts": sorted(set(need.tolist())), "sparse": bool(ms.is_sparse)}


# ------------------------------------------------------------------------------------------ history

HIST_KINDS = ("box", "sphere", "capsule", "stack", "box", "sphere", "cart", "arm", "slider")
HIST_W, HIST_T = 8, 6


def stationarity_residual(mf, d):
  """M qacc - qfrc_smooth - qfrc_constraint of a full (uncompacted) solve, per world and DOF (zero at the exact solution)."""
  import warp as wp
  from mujoco_warp._src import support

  out = wp.zeros_like(d.qacc)
  support.mul_m(mf, d, out, d.qacc)
  return out.numpy().astype(np.float64) - d.qfrc_smooth.numpy() - d.qfrc_constraint.numpy()


def tree_dofs(mjm, trees):
  return np.concatenate([np.arange(mjm.tree_dofadr[t], mjm.tree_dofadr[t] + mjm.tree_dofnum[t]) for t in trees] + [np.zeros(0, int)]).astype(int)


def run_history(case, rec):
  """One Data with a requested DOF capacity (mostly nvmax_pad < nv) driven through a history of awake sets.

  Every world walks its own schedule of asleep group-subsets (trees owning high-index DOFs awake first and asleep later
  and vice versa, sets changing at every call, calls above capacity interleaved with calls that fit).  After every call:
  NVMAX bit <=> awake DOF count > nvmax; for worlds that fit: compaction maps consistent, frozen DOFs exactly zero,
  awake DOFs equal to the full solve of the same state.
  variant 'sleep':  sleep-enabled model, trees forced asleep / woken through tree_asleep + update_sleep, mjw.forward;
  variant 'direct': flag-free model, tree_awake written, update_active_dofs + smooth_solve_compact + solve_compact called
                    directly after the full forward of the same Data (as the repository's tests do).
  """
  import mujoco_warp as mjw
  import warp as wp
  from mujoco_warp._src import island as island_mod
  from mujoco_warp._src import solver as solver_mod

  direct = bool(case["direct"])
  b = build(case, rec, ntree=(4, 7), p_touch=0.15, links=case["seed"] % 3 == 0, kinds=HIST_KINDS, min_nv=24)
  if b is None:
    return
  rng, xml, meta, mjm_s, mjm_f, ms, mf, integ = b
  nt, nv = int(mjm_s.ntree), int(mjm_s.nv)
  base = rand_states(rng, mjm_s, 1, vel=0.0, lift=0.0)[0]
  if mjm_s.neq:
    base["eq_active"] = rng.random(mjm_s.neq) < 0.4
  groups = island_groups(mjw, mjm_f, mf, base)
  never = [t for t in range(nt) if mjm_s.tree_sleep_policy[t] == int(mujoco.mjtSleepPolicy.mjSLEEP_AUTO_NEVER)]
  groups_ok = [g for g in groups if not any(t in never for t in g)]
  ng = len(groups_ok)
  variant = "direct" if direct else "sleep"
  rec.cover(f"kind:history:{variant}", 1)
  if ng < 2 or nv < 8:
    rec.count("history:scene_with_fewer_than_2_sleepable_groups")
    return
  # capacity: mostly so small that the padded compact width stays below nv (dof_cdof is wider than cdof_dof)
  hi = 16 * ((nv - 1) // 16) - 1  # largest nvmax with 16 * (nvmax // 16 + 1) < nv
  if hi >= 6 and rng.random() < 0.8:
    nvmax = int(rng.integers(6, hi + 1))
  else:
    nvmax = int(rng.integers(4, nv))
  W, T = HIST_W, HIST_T
  order = sorted(range(ng), key=lambda gi: min(groups_ok[gi]))
  lowg, highg = order[: ng // 2], order[ng // 2 :]
  p_sleep = rng.choice([0.4, 0.6, 0.8], size=W)
  sched = []  # sched[c][w] = bitmask of trees asked to sleep
  for c in range(T):
    row = []
    for w in range(W):
      gs = [gi for gi in range(ng) if rng.random() < p_sleep[w]]
      if w < 2 and c < 2:
        gs = lowg if (c + w) % 2 == 0 else highg  # world 0: high trees awake, then low trees awake; world 1: the reverse
      row.append(sum(1 << t for gi in gs for t in groups_ok[gi]))
    sched.append(row)
  zero = np.zeros(nv, np.float32)
  sts0 = [dict(base, qvel=zero) for _ in range(W)]
  mm, mjm = (mf, mjm_f) if direct else (ms, mjm_s)
  dd = mw.make_data(mjm, mm, sts0, nconmax=NCONMAX, njmax=NJMAX, nvmax=nvmax)
  pad = int(dd.nvmax_pad)
  df = None if direct else mw.make_data(mjm_f, mf, sts0, nconmax=NCONMAX, njmax=NJMAX)
  rec.cover("history:nvmax_pad_below_nv_cases" if pad < nv else "history:nvmax_pad_at_least_nv_cases", 1)
  rec.cover("history:nvmax_pad", [str(pad)])
  mapped = [set() for _ in range(W)]  # DOFs that received a compact index at an earlier call of this world
  overflowed = np.zeros(W, dtype=bool)
  if not direct:
    # every tree awake once (kinematics of all bodies, and the first nvmax DOFs get mapped; above capacity unless nvmax >= nv)
    mjw.forward(ms, dd)
    for w in range(W):
      mapped[w] |= set(range(min(nv, nvmax)))
      overflowed[w] = nv > nvmax
  prev_awake = [None] * W
  cert = Certifier(mjw, mjm_f, mf, sts0)
  nfit = nover = nretired = nafter = nchange = nfro = nawk = 0
  for c in range(T):
    masks = sched[c]
    qvel = (rng.normal(size=(W, nv)) * 0.5).astype(np.float32)
    for w in range(W):
      qvel[w, tree_dofs(mjm_s, [t for t in range(nt) if (masks[w] >> t) & 1])] = 0
    for d_ in (dd, df):
      if d_ is not None:
        wp.copy(d_.qvel, wp.array(qvel, dtype=float))
        d_.qacc_warmstart.zero_()
    if case.get("fresh_before_call") == c:
      # diagnosis aid for replays (never set by cases()): the same call on a Data without history
      dd = mw.make_data(mjm, mm, sts0, nconmax=NCONMAX, njmax=NJMAX, nvmax=nvmax)
      wp.copy(dd.qvel, wp.array(qvel, dtype=float))
      if not direct:
        mjw.forward(ms, dd)
    pre = snap(dd, ("qpos", "qvel"))
    if direct:
      mjw.forward(mf, dd)  # full solve of the same Data: reference, and fills qacc / qfrc_constraint of every DOF
      full = snap(dd, FWD)
      resid = stationarity_residual(mf, dd)
      ta = np.array([[0 if (masks[w] >> t) & 1 else 1 for t in range(nt)] for w in range(W)], dtype=np.int32)
      wp.copy(dd.tree_awake, wp.array(ta, dtype=int))
      dd.qacc_warmstart.zero_()
      dd.overflow.zero_()
      island_mod.update_active_dofs(mf, dd)
      solver_mod.smooth_solve_compact(mf, dd)
      solver_mod.solve_compact(mf, dd)
    else:
      mjw.forward(mf, df)
      full = snap(df, FWD)
      resid = stationarity_residual(mf, df)
      force_asleep(ms, dd, mjm_s, masks, groups_ok)
      dd.overflow.zero_()
      mjw.forward(ms, dd)
    mid = snap(dd, FWD + ("tree_awake", "ncdof", "overflow"), mm)
    Rs = Rf = None
    certf = None
    for w in range(W):
      awake = mid["tree_awake"][w] == 1
      act = tree_dofs(mjm_s, [t for t in range(nt) if awake[t]])
      fro = np.setdiff1d(np.arange(nv), act)
      need = len(act)
      if prev_awake[w] is not None and not np.array_equal(prev_awake[w], awake):
        nchange += 1
      prev_awake[w] = awake.copy()
      ctx = f"[{variant} call {c} world {w} awake trees {np.nonzero(awake)[0].tolist()} active DOFs {need} nvmax {nvmax} nvmax_pad {pad} nv {nv} nefc {int(mid['nefc'][w])} sparse {bool(mm.is_sparse)}]"
      bit = bool(int(mid["overflow"][w]) & NVMAX_BIT)
      rec.check()
      was_mapped, was_over = mapped[w], bool(overflowed[w])
      mapped[w] = was_mapped | set(int(v) for v in act[:nvmax])
      if need > nvmax:
        nover += 1
        overflowed[w] = True
        rec.cover("capacity_minus_need", [str(int(nvmax - need))] if nvmax - need >= -2 else [])
        if not bit:
          rec.viol("nvmax:bit_not_set", f"{need} active DOFs exceed nvmax {nvmax} but OverflowType.NVMAX is not set (overflow={int(mid['overflow'][w])}) {ctx}")
        continue  # above capacity: values are not defined
      nfit += 1
      nafter += int(was_over)
      retired = [int(v) for v in fro if v >= pad and int(v) in was_mapped]
      nretired += int(bool(retired))
      if bit:
        rec.viol("nvmax:bit_set_within_capacity", f"{need} active DOFs fit nvmax {nvmax} but OverflowType.NVMAX is set {ctx}")
      check_compaction_maps(rec, mjm_s, dd, w, awake, ctx)
      if len(fro):
        nfro += 1
        for k in ("qacc", "qfrc_constraint", "qacc_smooth"):
          rec.check()
          if np.any(mid[k][w][fro] != 0):
            bad = fro[np.nonzero(mid[k][w][fro])[0]]
            rec.viol(f"frozen:{k}_nonzero", f"frozen DOFs {bad.tolist()} have {k} {mid[k][w][bad].tolist()} (DOFs mapped earlier and asleep now: {retired}) {ctx}")
      if len(act):
        nawk += 1
        nw = int(mid["nefc"][w])
        if int(mid["solver_niter"][w]) >= ITER or int(full["solver_niter"][w]) >= ITER:
          rec.count("history:ungated_iterlimit")
        elif not np.all(np.isfinite(full["qacc"][w])) or (nw and float(np.abs(mid["_D"][w][:nw]).max()) > 1e10):
          rec.count("history:ungated_degenerate_reference")
        else:
          if not direct:
            if Rs is None:
              Rs, Rf = _isl.Rows(ms, dd), _isl.Rows(mf, df)
            if awake_rows(mjm_s, Rs, dd, w, awake) != awake_rows(mjm_s, Rf, df, w, awake):
              rec.count("history:ungated_awake_row_structure")
              continue
          if certf is None:
            certf = cert(pre["qpos"], pre["qvel"], mid["qacc"], full["qacc"], c)
          rec.count("history:awake_worlds_compared")
          compare_world(rec, mm, mid, full, w, ("qacc_smooth", "qacc", "qfrc_constraint"), ctx, dofs=act, tally="history_awake", certify=certf, ref_resid=resid)
    if len([v for v in rec.violations if not v["sig"].startswith("compact:sparse:nefc0:")]) >= 6:
      break
  rec.cover("history:calls", int((c + 1) * W))
  rec.cover("history:calls_within_capacity", nfit)
  rec.cover("history:calls_above_capacity", nover)
  rec.cover("history:calls_within_capacity_after_an_overflow", nafter)
  rec.cover("history:awake_set_changes", nchange)
  rec.cover("history:calls_with_frozen_dofs", nfro)
  if pad < nv:
    rec.cover("history:calls_with_retired_dofs_beyond_nvmax_pad", nretired)
    rec.cover(f"history:{variant}:calls_with_retired_dofs_beyond_nvmax_pad", nretired)
  if nfit and nover and nchange:
    rec.nontrivial("history", variant, xml, nvmax, tuple(tuple(r) for r in sched))
  rec.sample = {"kind": "history", "variant": variant, "seed": case["seed"], "ntree": nt, "nv": nv, "nvmax": nvmax, "nvmax_pad": pad, "groups": groups_ok, "sparse": bool(mm.is_sparse), "asleep_masks_world0": [hex(r[0]) for r in sched], "calls_with_retired_dofs_beyond_nvmax_pad": nretired}


def run_case(case):
  rec = core.Rec(case)
  if case["kind"] == "history":
    run_history(case, rec)
  elif case["kind"] == "equiv":
    run_equiv(case, rec)
  elif case["kind"] == "frozen":
    run_frozen(case, rec)
  else:
    run_frozen(case, rec, sweep=True)
  return rec.result()


def requirements(agg, tier):
  unmet = []
  cov, tal = agg["cover"], agg["tally"]
  feats = set(cov.get("features", []))
  for f in ("jacobian:dense", "jacobian:sparse", "cone:pyramidal", "cone:elliptic"):
    if f not in feats:
      unmet.append(f"feature never generated: {f}")
  if tal.get("equiv:worlds_with_constraints", 0) < 200:
    unmet.append("fewer than 200 all-awake world-forwards with active constraints compared")
  if tal.get("equiv:worlds_without_constraints", 0) < 20:
    unmet.append("fewer than 20 all-awake world-forwards without constraints compared")
  if cov.get("worlds_with_frozen_trees", 0) < 100:
    unmet.append("fewer than 100 subset worlds with frozen trees")
  if cov.get("nvmax_worlds_above_capacity", 0) < 50 or cov.get("nvmax_worlds_within_capacity", 0) < 50:
    unmet.append("capacity sweep did not cover both sides of the boundary")
  # awake-set histories on one Data with a small requested capacity
  lim = {"quick": 1, "thorough": 8}[tier]
  for variant in ("sleep", "direct"):
    if cov.get(f"history:{variant}:calls_with_retired_dofs_beyond_nvmax_pad", 0) < 10 * lim:
      unmet.append(f"history ({variant}): fewer than {10 * lim} calls within capacity in which DOFs beyond nvmax_pad that were mapped earlier are asleep")
  if cov.get("history:nvmax_pad_below_nv_cases", 0) < 4 * lim:
    unmet.append(f"history: fewer than {4 * lim} cases with nvmax_pad < nv")
  if cov.get("history:calls_within_capacity_after_an_overflow", 0) < 20 * lim or cov.get("history:calls_above_capacity", 0) < 20 * lim:
    unmet.append("history: calls above capacity followed by calls within capacity not observed often enough")
  if cov.get("history:awake_set_changes", 0) < 100 * lim:
    unmet.append(f"history: fewer than {100 * lim} changes of the awake set between consecutive calls")
  if tal.get("history:awake_worlds_compared", 0) < 100 * lim:
    unmet.append(f"history: fewer than {100 * lim} worlds within capacity whose awake DOFs were compared with the full solve")
  cm = set(cov.get("capacity_minus_need", []))
  for v in ("-1", "0", "1"):
    if v not in cm:
      unmet.append(f"capacity == need{v if v != '0' else ''} never exercised")
  return unmet
