"""Shared pieces of the collision monitors C04 / C18 / C19 / C20 (not a property module).

* scene generator: free bodies carrying one geom each + static plane / hfield, placed pairwise at a chosen
  signed distance (bisection on mj_geomDistance) or thrown into a small box ("crowd")
* MuJoCo reference contacts with a conditioning probe (pose perturbed by 1e-6)
* MJWarp contacts per world
* float64 geometry: support functions, signed distance functions, closed-form pair distances
"""

import mujoco
import numpy as np

from mon import gen, mw

GEOM_NAMES = {0: "plane", 1: "hfield", 2: "sphere", 3: "capsule", 4: "ellipsoid", 5: "cylinder", 6: "box", 7: "mesh"}
TYPE_ID = {v: k for k, v in GEOM_NAMES.items()}

# the 33 entries of MJWarp's collision table (collision_driver.MJ_COLLISION_TABLE), by name
PAIR_TABLE = [
  ("plane", "sphere"), ("plane", "capsule"), ("plane", "ellipsoid"), ("plane", "cylinder"), ("plane", "box"), ("plane", "mesh"),
  ("hfield", "sphere"), ("hfield", "capsule"), ("hfield", "ellipsoid"), ("hfield", "cylinder"), ("hfield", "box"), ("hfield", "mesh"),
  ("sphere", "sphere"), ("sphere", "capsule"), ("sphere", "ellipsoid"), ("sphere", "cylinder"), ("sphere", "box"), ("sphere", "mesh"),
  ("capsule", "capsule"), ("capsule", "ellipsoid"), ("capsule", "cylinder"), ("capsule", "box"), ("capsule", "mesh"),
  ("ellipsoid", "ellipsoid"), ("ellipsoid", "cylinder"), ("ellipsoid", "box"), ("ellipsoid", "mesh"),
  ("cylinder", "cylinder"), ("cylinder", "box"), ("cylinder", "mesh"),
  ("box", "box"), ("box", "mesh"), ("mesh", "mesh"),
]  # fmt: skip

PRIMITIVE_PAIRS = {
  ("plane", "sphere"), ("plane", "capsule"), ("plane", "ellipsoid"), ("plane", "cylinder"), ("plane", "box"), ("plane", "mesh"),
  ("sphere", "sphere"), ("sphere", "capsule"), ("sphere", "cylinder"), ("sphere", "box"), ("capsule", "capsule"), ("capsule", "box"),
}  # fmt: skip

# pair classes whose contact manifold is not unique (several equally valid point sets): compared by pair
# existence / deepest distance / normal / parameters, not by count and positions
POLYTOPE = {"box", "mesh"}
FLAT = {"box", "mesh", "cylinder"}
# convex pairs for which put_model warns "no multicontact support" when MULTICCD is enabled
NO_MULTICCD = {("capsule", "cylinder"), ("capsule", "mesh"), ("cylinder", "cylinder"), ("cylinder", "box"), ("cylinder", "mesh")}

MESHES = {
  "tetra": "0 0 0  0.2 0 0  0 0.2 0  0 0 0.2",
  "wedge": "-0.1 -0.1 -0.1  0.1 -0.1 -0.1  0.1 0.1 -0.1  -0.1 0.1 -0.1  0 -0.1 0.12  0 0.1 0.12",
  "cubeish": "-0.1 -0.1 -0.1  0.1 -0.1 -0.1  0.1 0.1 -0.1  -0.1 0.1 -0.1  -0.08 -0.08 0.1  0.08 -0.08 0.1  0.08 0.08 0.1  -0.08 0.08 0.1",
  "octa": "0.15 0 0  -0.15 0 0  0 0.12 0  0 -0.12 0  0 0 0.1  0 0 -0.1",
}


def pair_name(t1, t2):
  a, b = (t1, t2) if TYPE_ID[t1] <= TYPE_ID[t2] else (t2, t1)
  return f"{a}-{b}"


# ------------------------------------------------------------------------------------ isolation from F6


def pin_primitive_dispatch(mjm):
  """Pins collision_primitive's append-only module-global dispatch list to the list a process that has seen every
  primitive pair type would hold (box-box only when NATIVECCD is disabled). Finding F6 (contacts depend on what ran
  earlier in the process) is property C36's subject; without this, a case's verdict would depend on which cases its
  worker ran before and would not replay. Also bounds the number of primitive-kernel specialisations to two."""
  try:
    from mujoco_warp._src import collision_primitive as cp
    from mujoco_warp._src.types import GeomType
  except Exception:
    return
  types = getattr(cp, "_PRIMITIVE_COLLISION_TYPES", None)
  funcs = getattr(cp, "_PRIMITIVE_COLLISION_FUNC", None)
  table = getattr(cp, "_PRIMITIVE_COLLISIONS", None)
  if types is None or funcs is None or table is None:
    return
  nativeccd_disabled = bool(mjm.opt.disableflags & mujoco.mjtDisableBit.mjDSBL_NATIVECCD)
  types[:] = []
  funcs[:] = []
  for k, f in table.items():
    if k == (GeomType.BOX, GeomType.BOX) and not nativeccd_disabled:
      continue
    types.append(k)
    funcs.append(f)


# ------------------------------------------------------------------------------------ scenes


def _f(x):
  return " ".join(f"{float(v):.6g}" for v in np.atleast_1d(x))


def rquat(rng):
  q = rng.normal(size=4)
  return q / np.linalg.norm(q)


_AXQ = None


def axis_quat(rng):
  """One of the 24 axis-aligned rotations (face-face / parallel-edge configurations)."""
  global _AXQ
  if _AXQ is None:
    qs = []
    s = np.sqrt(0.5)
    gens = [np.array([1.0, 0, 0, 0]), np.array([s, s, 0, 0]), np.array([s, 0, s, 0]), np.array([s, 0, 0, s])]
    seen = []
    frontier = [gens[0]]
    while frontier:
      q = frontier.pop()
      if any(min(np.abs(q - p).max(), np.abs(q + p).max()) < 1e-9 for p in seen):
        continue
      seen.append(q)
      for g in gens[1:]:
        r = np.zeros(4)
        mujoco.mju_mulQuat(r, q, g)
        frontier.append(r)
    _AXQ = seen
  return _AXQ[rng.integers(len(_AXQ))].copy()


def geom_attrs(rng, t, opts):
  """size / mesh attributes of a geom of type t; returns (attr dict, bounding radius)."""
  a = {"type": t}
  if t == "sphere":
    r = rng.uniform(0.05, 0.2)
    a["size"] = _f(r)
    rb = r
  elif t == "capsule":
    r, h = rng.uniform(0.04, 0.12), rng.uniform(0.05, 0.25)
    a["size"] = _f([r, h])
    rb = r + h
  elif t == "cylinder":
    r, h = rng.uniform(0.05, 0.15), rng.uniform(0.04, 0.2)
    a["size"] = _f([r, h])
    rb = np.hypot(r, h)
  elif t == "ellipsoid":
    s = rng.uniform(0.05, 0.2, size=3)
    a["size"] = _f(s)
    rb = s.max()
  elif t == "box":
    s = rng.uniform(0.04, 0.2, size=3)
    a["size"] = _f(s)
    rb = np.linalg.norm(s)
  elif t == "mesh":
    mn = list(MESHES)[rng.integers(len(MESHES))]
    a["mesh"] = mn
    rb = 0.25
  else:
    raise ValueError(t)
  return a, rb


def contact_attrs(rng, a, opts, polytope):
  """Random contact parameters. Margins are only drawn when allowed for this geom (put_model rejects margins on
  box/mesh pairs while MULTICCD or NATIVECCD box-box is active)."""
  if rng.random() < opts.get("p_margin", 0.0) and (not polytope or opts.get("polytope_margin", False)):
    mg = rng.uniform(0.0, 0.03)
    a["margin"] = _f(mg)
    if rng.random() < 0.5:
      a["gap"] = _f(rng.uniform(0, 0.02))
  if rng.random() < opts.get("p_params", 0.0):
    a["friction"] = _f([rng.uniform(0.2, 1.5), rng.uniform(0.002, 0.02), rng.uniform(0.0001, 0.01)])
  if rng.random() < opts.get("p_params", 0.0):
    a["condim"] = str([1, 3, 4, 6][rng.integers(4)])
  if rng.random() < opts.get("p_params", 0.0):
    a["priority"] = str(int(rng.integers(0, 3)))
  if rng.random() < opts.get("p_params", 0.0):
    a["solmix"] = _f(rng.choice([0.0, 1e-20, 0.5, 1.0, 3.0]))
  if rng.random() < opts.get("p_params", 0.0):
    a["solref"] = _f([rng.uniform(0.01, 0.05), rng.uniform(0.5, 1.5)]) if rng.random() < 0.7 else _f([-rng.uniform(100, 1000), -rng.uniform(1, 50)])
  if rng.random() < opts.get("p_params", 0.0):
    a["solimp"] = _f([rng.uniform(0.8, 0.95), rng.uniform(0.95, 0.99), rng.uniform(0.0005, 0.005), 0.5, 2])


def build_scene(rng, body_types, opts):
  """Scene of len(body_types) free bodies (one geom each) plus optional static plane / hfield.

  opts: plane(bool), hfield(bool), cone, flags (dict name->'disable'/'enable'), p_margin, p_params, polytope_margin,
        pairs (list of (i,j) body indices that get an explicit <pair>), excludes (list of (i,j)).
  Returns (xml, info) with info['geoms'] = list of (name, type) in geom-id order, info['body_geom'][i] = geom name.
  """
  meshes = set()
  world = []
  info = {"geoms": [], "body_geom": [], "rbound": []}
  if opts.get("plane"):
    a = {"name": "gplane", "type": "plane", "size": "0 0 1"}
    if opts.get("plane_tilt"):
      a["quat"] = _f(rquat(rng) * 0.15 + np.array([1, 0, 0, 0]))
    contact_attrs(rng, a, opts, False)
    world.append("<geom " + " ".join(f'{k}="{v}"' for k, v in a.items()) + "/>")
    info["geoms"].append(("gplane", "plane"))
  hf_asset = ""
  if opts.get("hfield"):
    nr, nc = 6, 5
    el = rng.uniform(0, 1, size=nr * nc)
    hf_asset = f'<hfield name="hf" nrow="{nr}" ncol="{nc}" size="1.5 1.2 0.3 0.1" elevation="{_f(el)}"/>'
    a = {"name": "ghf", "type": "hfield", "hfield": "hf", "pos": "0 0 -3"}
    contact_attrs(rng, a, dict(opts, p_margin=0.0), False)
    world.append("<geom " + " ".join(f'{k}="{v}"' for k, v in a.items()) + "/>")
    info["geoms"].append(("ghf", "hfield"))
  bodies = []
  for i, t in enumerate(body_types):
    a, rb = geom_attrs(rng, t, opts)
    a["name"] = f"g{i}"
    if "mesh" in a:
      meshes.add(a["mesh"])
    contact_attrs(rng, a, opts, t in POLYTOPE)
    g = "<geom " + " ".join(f'{k}="{v}"' for k, v in a.items()) + "/>"
    bodies.append(f'<body name="b{i}" pos="{1.5 * i} 0 2"><freejoint/>{g}</body>')
    info["geoms"].append((f"g{i}", t))
    info["body_geom"].append(f"g{i}")
    info["rbound"].append(rb)
  flags = opts.get("flags", {})
  fl = "<flag " + " ".join(f'{k}="{v}"' for k, v in flags.items()) + "/>" if flags else ""
  cone = opts.get("cone", "pyramidal")
  assets = "".join(f'<mesh name="{mn}" vertex="{MESHES[mn]}"/>' for mn in sorted(meshes)) + hf_asset
  contact = []
  for i, j in opts.get("pairs", []):
    a = f'geom1="g{i}" geom2="g{j}"'
    if rng.random() < 0.7:
      a += f' condim="{[1, 3, 4, 6][rng.integers(4)]}"'
    if rng.random() < 0.6:
      a += f' friction="{_f(rng.uniform(0.1, 1.5, size=2))} {_f(rng.uniform(0.001, 0.02, size=3))}"'
    if rng.random() < 0.5 and not (body_types[i] in POLYTOPE and body_types[j] in POLYTOPE and not opts.get("polytope_margin")):
      mg = rng.uniform(0, 0.03)
      a += f' margin="{_f(mg)}" gap="{_f(rng.uniform(0, 0.02))}"'
    if rng.random() < 0.4:
      a += f' solref="{_f([rng.uniform(0.01, 0.05), rng.uniform(0.5, 1.5)])}"'
    if rng.random() < 0.4:
      a += f' solreffriction="{_f([rng.uniform(0.01, 0.05), rng.uniform(0.5, 1.5)])}"'
    if rng.random() < 0.4:
      a += f' solimp="{_f([rng.uniform(0.8, 0.95), rng.uniform(0.95, 0.99), rng.uniform(0.0005, 0.005), 0.5, 2])}"'
    contact.append(f"<pair {a}/>")
  for i, j in opts.get("excludes", []):
    contact.append(f'<exclude body1="b{i}" body2="b{j}"/>')
  xml = (
    f'<mujoco><option cone="{cone}">{fl}</option>'
    + (f"<asset>{assets}</asset>" if assets else "")
    + "<worldbody>"
    + "".join(world)
    + "".join(bodies)
    + "</worldbody>"
    + (f"<contact>{''.join(contact)}</contact>" if contact else "")
    + "</mujoco>"
  )
  return xml, info


def _set_body_pose(qpos, i, pos, quat):
  qpos[7 * i : 7 * i + 3] = pos
  qpos[7 * i + 3 : 7 * i + 7] = quat


def _geomdist(mjm, mjd, qpos, g1, g2, distmax=1.0):
  mjd.qpos[:] = qpos
  mujoco.mj_kinematics(mjm, mjd)
  if mjm.geom_type[g1] == mujoco.mjtGeom.mjGEOM_HFIELD:
    # mj_geomDistance does not handle height fields: use the deepest contact of the pair (inf when none)
    mujoco.mj_collision(mjm, mjd)
    best = np.inf
    for i in range(mjd.ncon):
      c = mjd.contact[i]
      if c.geom1 == g1 and c.geom2 == g2:
        best = min(best, c.dist)
    return best
  return mujoco.mj_geomDistance(mjm, mjd, g1, g2, distmax, None)


def draw_target(rng, margin, band_bias=False):
  """Signed surface distance a pair is steered to (margin = margin + gap of the pair)."""
  if band_bias and rng.random() < 0.7:
    r = rng.random()
    if r < 0.5:
      return rng.uniform(0, margin) if margin > 0 else rng.normal() * 0.002
    if r < 0.8:
      return margin + rng.normal() * 0.003
    return rng.normal() * 0.002
  r = rng.random()
  if r < 0.4:
    return rng.uniform(-0.04, -0.001)
  if r < 0.6:
    return rng.normal() * 0.002
  if r < 0.8:
    return rng.uniform(0, margin) if margin > 0 else rng.uniform(0.001, 0.02)
  if r < 0.9:
    return rng.uniform(-0.1, -0.04)
  return None  # raw random offset


def inner_point(mjm, g, rng):
  """A point (geom frame) strictly inside geom g, away from its centre and from its surface: for a capsule / cylinder a
  point near the axis, for a box a point of the inner 70% box (nearest face generic), for a mesh a shrunk vertex."""
  t, s = GEOM_NAMES[int(mjm.geom_type[g])], np.asarray(mjm.geom_size[g], dtype=np.float64)
  v = rng.normal(size=3)
  v /= np.linalg.norm(v)
  f = rng.uniform(0.15, 0.6)
  if t == "sphere":
    return v * f * s[0]
  if t == "capsule":
    return np.array([0.0, 0.0, rng.uniform(-1.0, 1.0) * s[1]]) + v * f * s[0]
  if t == "cylinder":
    return np.array([v[0] * f * s[0], v[1] * f * s[0], rng.uniform(-0.7, 0.7) * s[1]])
  if t == "ellipsoid":
    return v * f * s
  if t == "box":
    return rng.uniform(-0.7, 0.7, size=3) * s
  if t == "mesh":
    m = int(mjm.geom_dataid[g])
    a, k = int(mjm.mesh_vertadr[m]), int(mjm.mesh_vertnum[m])
    return 0.4 * np.asarray(mjm.mesh_vert[a + int(rng.integers(k))], dtype=np.float64)  # the mesh frame's origin is the centroid
  raise ValueError(t)


def place_pairs(mjm, info, pairs, rng, p_axis=0.25, same_point=0.0, band_bias=False, deep=0.0):
  """qpos (float32-rounded, float64 array) placing, for every (a, b) in pairs, body b's geom at a drawn signed distance
  from a (a = body index, or 'plane' / 'hfield' for the static geoms). Bodies not mentioned stay far apart.

  deep (default off, draws nothing when 0): probability that a pair is instead put into DEEP penetration with generic
  rotations: the centre of one geom coincides with an inner point of the other (target 'deep:1in2' / 'deep:2in1'), below
  a plane: the geom's centre lies under the plane ('deep:plane')."""
  mjd = mujoco.MjData(mjm)
  nb = len(info["body_geom"])
  qpos = np.zeros(mjm.nq)
  for i in range(nb):
    _set_body_pose(qpos, i, [1.5 * i, 3.0 * (i % 2), 2.0 + 1.0], [1, 0, 0, 0])
  gid = lambda name: mujoco.mj_name2id(mjm, mujoco.mjtObj.mjOBJ_GEOM, name)
  targets = []
  for k, (a, b) in enumerate(pairs):
    qb = axis_quat(rng) if rng.random() < p_axis else rquat(rng)
    gb = gid(info["body_geom"][b])
    rb = info["rbound"][b]
    if a == "plane":
      ga = gid("gplane")
      n = mjm.geom_quat[ga]
      R = np.zeros(9)
      mujoco.mju_quat2Mat(R, n)
      nz = R.reshape(3, 3)[:, 2]
      # grid on the plane so that the bodies resting on it do not also collide with each other
      gx, gy = 0.9 * (k % 4 - 1.5) + rng.uniform(-0.05, 0.05), 0.9 * (k // 4 - 0.5) + rng.uniform(-0.05, 0.05)
      base = mjm.geom_pos[ga] + R.reshape(3, 3)[:, 0] * gx + R.reshape(3, 3)[:, 1] * gy
      u, thi = nz, rb + 0.3
      tlo = -0.5 * rb
    elif a == "hfield":
      ga = gid("ghf")
      base = mjm.geom_pos[ga] + np.array([-1.1 + 0.55 * (k % 5) + rng.uniform(-0.05, 0.05), rng.uniform(-0.8, 0.8), 0.0])
      u, thi, tlo = np.array([0, 0, 1.0]), 0.3 + rb + 0.3, 0.0
    else:
      ga = gid(info["body_geom"][a])
      qa = axis_quat(rng) if rng.random() < p_axis else rquat(rng)
      base = np.array([1.5 * k, 0.0, 2.0])
      _set_body_pose(qpos, a, base, qa)
      u = rng.normal(size=3)
      if rng.random() < p_axis:
        u = np.zeros(3)
        u[rng.integers(3)] = rng.choice([-1.0, 1.0])
        if rng.random() < 0.5:
          u += rng.normal(size=3) * 0.3
      u /= np.linalg.norm(u)
      tlo, thi = 0.0, info["rbound"][a] + rb + 0.3
    if deep and a != "hfield" and rng.random() < deep:
      # deep penetration, generic (non-symmetric) rotations: never axis-aligned
      qb = rquat(rng)
      if a != "plane":
        _set_body_pose(qpos, a, base, rquat(rng))
      _set_body_pose(qpos, b, base, qb)
      mjd.qpos[:] = qpos
      mujoco.mj_kinematics(mjm, mjd)
      xa, xb = np.array(mjd.geom_xpos[ga]), np.array(mjd.geom_xpos[gb])
      Ra, Rb = np.array(mjd.geom_xmat[ga]).reshape(3, 3), np.array(mjd.geom_xmat[gb]).reshape(3, 3)
      if a == "plane":
        h = float(nz @ (xb - xa))
        shift = -nz * (h + rng.uniform(0.05, 0.5) * minsize(mjm, gb))  # the geom's centre lies under the plane
        targets.append("deep:plane")
      elif rng.random() < 0.5:
        shift = xa + Ra @ inner_point(mjm, ga, rng) - xb  # centre of geom2 strictly inside geom1
        targets.append("deep:2in1")
      else:
        shift = xa - (xb + Rb @ inner_point(mjm, gb, rng))  # centre of geom1 strictly inside geom2
        targets.append("deep:1in2")
      _set_body_pose(qpos, b, base + shift, qb)
      continue
    margin = float(mjm.geom_margin[ga] + mjm.geom_margin[gb] + mjm.geom_gap[ga] + mjm.geom_gap[gb])
    tgt = draw_target(rng, margin, band_bias)
    if a == "hfield":
      # no reference distance exists for separated height-field pairs (bisection needs a contact), and deep
      # penetration of a non-convex terrain is ill-posed: steer to shallow penetration / inside the margin
      tgt = 0.01 if tgt is None else tgt
      tgt = float(np.clip(tgt if tgt < margin else -abs(tgt), -0.04, None))
    if rng.random() < same_point:
      _set_body_pose(qpos, b, base, qb)
      targets.append("same_point")
      continue
    if tgt is None:
      t = rng.uniform(tlo, thi)
    else:
      lo, hi = tlo, thi
      _set_body_pose(qpos, b, base + u * hi, qb)
      dhi = _geomdist(mjm, mjd, qpos, ga, gb)
      if not (dhi > tgt):
        t = hi
      else:
        for _ in range(22):
          mid = 0.5 * (lo + hi)
          _set_body_pose(qpos, b, base + u * mid, qb)
          dm = _geomdist(mjm, mjd, qpos, ga, gb)
          if dm > tgt:
            hi = mid
          else:
            lo = mid
        t = hi
    _set_body_pose(qpos, b, base + u * t, qb)
    targets.append(tgt)
  return qpos.astype(np.float32).astype(np.float64), targets


def place_crowd(mjm, info, rng, extent=0.35, p_axis=0.2, z0=0.15):
  nb = len(info["body_geom"])
  qpos = np.zeros(mjm.nq)
  c = None
  for i in range(nb):
    p = rng.uniform(-extent, extent, size=3)
    p[2] = z0 + abs(p[2])
    if c is not None and rng.random() < 0.05:
      p = c.copy()  # coincident centres (projection ties in the sweep)
    c = p
    q = axis_quat(rng) if rng.random() < p_axis else rquat(rng)
    _set_body_pose(qpos, i, p, q)
  return qpos.astype(np.float32).astype(np.float64)


FLAGSETS = {
  "default": {},
  "nomulti": {"multiccd": "disable"},
  "nonative": {"multiccd": "disable", "nativeccd": "disable"},
}


TREE_PROFILE = gen.profile(
  nbody=(3, 7),
  collide=True,
  contact_rich=True,
  p_plane=0.5,
  p_mesh=0.15,
  p_pair=0.4,
  p_exclude=0.3,
  p_priority=0.3,
  p_weld=0.3,
  p_mocap=0.1,
  p_site=0.0,
  condims=(1, 3, 4, 6),
  cones=("pyramidal", "elliptic"),
  flags_disable=("filterparent",),
)



def make_case_model(case, rng):
  """Returns (xml, mjm, qpos_list, feats) or None if MuJoCo rejects it."""
  kind = case["kind"]
  flags = dict(FLAGSETS[case["flags"]])
  nworld = 3
  if kind in ("pair", "deep"):  # "deep": the same scene, pairs placed in deep penetration (place_pairs(deep=1))
    t1, t2 = case["pair"]
    K = 5
    opts = {"flags": flags, "cone": ("pyramidal", "elliptic")[int(rng.integers(2))], "p_margin": 0.35, "p_params": 0.3}
    opts["polytope_margin"] = case["flags"] == "nonative"
    if t1 in ("plane", "hfield"):
      bt = [t2] * K
      pairs = [(t1, i) for i in range(K)]
      opts[t1] = True
      opts["plane_tilt"] = rng.random() < 0.5
    else:
      bt = [t1, t2] * K
      pairs = [(2 * i, 2 * i + 1) for i in range(K)]
      opts["pairs"] = [(2 * i, 2 * i + 1) for i in range(K) if rng.random() < 0.25]
    xml, info = build_scene(rng, bt, opts)
    mjm = gen.compile_xml(xml)
    if mjm is None:
      return None
    qs = [place_pairs(mjm, info, pairs, rng, deep=1.0 if kind == "deep" else 0.0)[0] for _ in range(nworld)]
    return xml, mjm, qs, [f"{kind}scene:{t1}-{t2}", "flags:" + case["flags"], "cone:" + opts["cone"]]
  if kind == "crowd":
    n = int(rng.integers(8, 15))
    types = ["sphere", "capsule", "ellipsoid", "cylinder", "box", "mesh"]
    bt = [types[int(rng.integers(6))] for _ in range(n)]
    opts = {"flags": flags, "cone": ("pyramidal", "elliptic")[int(rng.integers(2))], "p_margin": 0.3, "p_params": 0.3}
    opts["polytope_margin"] = case["flags"] == "nonative"
    opts["plane"] = rng.random() < 0.6
    opts["plane_tilt"] = rng.random() < 0.5
    opts["hfield"] = rng.random() < 0.35
    prs, exs = [], []
    for _ in range(3):
      i, j = rng.choice(n, size=2, replace=False)
      if rng.random() < 0.5 and (min(i, j), max(i, j)) not in prs:
        prs.append((int(min(i, j)), int(max(i, j))))
      i, j = rng.choice(n, size=2, replace=False)
      if rng.random() < 0.4:
        exs.append((int(i), int(j)))
    opts["pairs"], opts["excludes"] = prs, exs
    xml, info = build_scene(rng, bt, opts)
    mjm = gen.compile_xml(xml)
    if mjm is None:
      return None
    z0 = -2.72 if (opts["hfield"] and not opts["plane"]) else 0.05
    qs = []
    for w in range(nworld):
      q = place_crowd(mjm, info, rng, extent=rng.choice([0.45, 0.6, 0.8]), z0=z0)
      qs.append(q)
    if opts["hfield"] and opts["plane"]:
      pass
    return xml, mjm, qs, ["crowd", "flags:" + case["flags"], "cone:" + opts["cone"]] + (["crowd:hfield"] if opts["hfield"] else []) + (["crowd:plane"] if opts["plane"] else [])
  if kind == "tree":
    P = dict(TREE_PROFILE)
    P["p_margin"] = 0.3 if case["flags"] == "nomulti" else 0.0
    xml, mjm, feat, s = gen.make_model(case["seed"], P)
    if mjm is None:
      return None
    for k, v in flags.items():
      bit = {"multiccd": mujoco.mjtDisableBit.mjDSBL_MULTICCD, "nativeccd": mujoco.mjtDisableBit.mjDSBL_NATIVECCD}[k]
      mjm.opt.disableflags |= int(bit)
    qs = [np.asarray(gen.sample_state(mjm, rng, quat_scale=False, applied=False)["qpos"], dtype=np.float64) for _ in range(nworld)]
    return xml + "|" + case["flags"], mjm, qs, ["tree", "flags:" + case["flags"]] + [f for f in feat if f.startswith(("contact:", "disable:", "cone:"))]
  raise ValueError(kind)



# ------------------------------------------------------------------------------------ engines

MJ_FIELDS = ("dist", "pos", "frame", "includemargin", "friction", "solref", "solreffriction", "solimp", "dim", "geom")


def mj_contacts(mjm, mjd):
  n = mjd.ncon
  c = mjd.contact
  out = {
    "dist": np.array(c.dist[:n], dtype=np.float64),
    "pos": np.array(c.pos[:n], dtype=np.float64).reshape(n, 3),
    "frame": np.array(c.frame[:n], dtype=np.float64).reshape(n, 9),
    "includemargin": np.array(c.includemargin[:n], dtype=np.float64),
    "friction": np.array(c.friction[:n], dtype=np.float64).reshape(n, 5),
    "solref": np.array(c.solref[:n], dtype=np.float64).reshape(n, 2),
    "solreffriction": np.array(c.solreffriction[:n], dtype=np.float64).reshape(n, 2),
    "solimp": np.array(c.solimp[:n], dtype=np.float64).reshape(n, 5),
    "dim": np.array(c.dim[:n], dtype=np.int64),
    "geom": np.array(c.geom[:n], dtype=np.int64).reshape(n, 2),
  }
  return out


def mj_collide(mjm, qpos, mjd=None):
  mjd = mjd or mujoco.MjData(mjm)
  mujoco.mj_resetData(mjm, mjd)
  mjd.qpos[:] = qpos
  mujoco.mj_kinematics(mjm, mjd)
  mujoco.mj_collision(mjm, mjd)
  return mj_contacts(mjm, mjd), mjd


def perturb_qpos(mjm, qpos, rng, eps=1e-6):
  q = np.array(qpos, dtype=np.float64)
  q = q + rng.uniform(-eps, eps, size=q.shape) * np.maximum(1.0, np.abs(q))
  return q


def mjw_collide(mjm, m, qpos_list, nconmax=None, d=None):
  """Runs kinematics + collision of MJWarp on one world per qpos. Returns (d, [contact dict per world])."""
  import mujoco_warp as mjw
  import warp as wp

  nworld = len(qpos_list)
  if d is None:
    npair = mjm.ngeom * (mjm.ngeom - 1) // 2
    ncon = nconmax or max(64, 2 * npair + 16, 12 * mjm.ngeom)
    d = mjw.make_data(mjm, nworld=nworld, nconmax=ncon, njmax=8)
  wp.copy(d.qpos, wp.array(np.stack([np.asarray(q, dtype=np.float32) for q in qpos_list]), dtype=float))
  d.overflow.zero_()
  mjw.kinematics(m, d)
  mjw.collision(m, d)
  return d, world_contacts(d)


def world_contacts(d):
  nworld = d.nworld
  allc = mw.contacts(d, None)
  out = []
  for w in range(nworld):
    sel = allc["worldid"] == w
    c = {k: (v[sel] if isinstance(v, np.ndarray) and v.shape[:1] == sel.shape else v) for k, v in allc.items()}
    c["frame"] = c["frame"].reshape(-1, 9)
    out.append(c)
  return out


def group_by_pair(c):
  g = {}
  geom = np.asarray(c["geom"]).reshape(-1, 2)
  for i in range(geom.shape[0]):
    g.setdefault((int(geom[i, 0]), int(geom[i, 1])), []).append(i)
  return g


# ------------------------------------------------------------------------------------ float64 geometry


class Geo:
  __slots__ = ("type", "size", "pos", "mat", "verts", "fn", "fd", "margin")


def geo_of(mjm, mjd, g):
  o = Geo()
  o.type = GEOM_NAMES.get(int(mjm.geom_type[g]), "other")
  o.size = np.array(mjm.geom_size[g], dtype=np.float64)
  o.pos = np.array(mjd.geom_xpos[g], dtype=np.float64)
  o.mat = np.array(mjd.geom_xmat[g], dtype=np.float64).reshape(3, 3)
  o.verts = None
  o.fn = o.fd = None
  if o.type == "mesh":
    mid = int(mjm.geom_dataid[g])
    va, vn = int(mjm.mesh_vertadr[mid]), int(mjm.mesh_vertnum[mid])
    o.verts = np.array(mjm.mesh_vert[va : va + vn], dtype=np.float64)
    fa, fnum = int(mjm.mesh_faceadr[mid]), int(mjm.mesh_facenum[mid])
    faces = np.array(mjm.mesh_face[fa : fa + fnum], dtype=np.int64)
    cen = o.verts.mean(axis=0)
    ns, ds = [], []
    for f in faces:
      a, b, c = o.verts[f[0]], o.verts[f[1]], o.verts[f[2]]
      n = np.cross(b - a, c - a)
      ln = np.linalg.norm(n)
      if ln < 1e-14:
        continue
      n = n / ln
      if np.dot(n, a - cen) < 0:
        n = -n
      ns.append(n)
      ds.append(np.dot(n, a))
    o.fn = np.array(ns)
    o.fd = np.array(ds)
  return o


def support(o, u):
  """max over the shape of u . p (world frame). u need not be unit."""
  u = np.asarray(u, dtype=np.float64)
  ul = o.mat.T @ u
  t = o.type
  if t == "sphere":
    h = o.size[0] * np.linalg.norm(ul)
  elif t == "capsule":
    h = o.size[0] * np.linalg.norm(ul) + o.size[1] * abs(ul[2])
  elif t == "cylinder":
    h = o.size[0] * np.hypot(ul[0], ul[1]) + o.size[1] * abs(ul[2])
  elif t == "ellipsoid":
    h = np.linalg.norm(o.size * ul)
  elif t == "box":
    h = np.abs(o.size * ul).sum()
  elif t == "mesh":
    h = (o.verts @ ul).max()
  else:
    raise ValueError(t)
  return h + u @ o.pos


def sdf(o, p):
  """Signed distance of world point p to the geom's surface (negative inside). Exact for plane, sphere, capsule, box,
  cylinder; first order for ellipsoid; for a mesh the largest face-plane distance (exact inside, a lower bound outside)."""
  pl = o.mat.T @ (np.asarray(p, dtype=np.float64) - o.pos)
  t = o.type
  if t == "plane":
    return pl[2]
  if t == "sphere":
    return np.linalg.norm(pl) - o.size[0]
  if t == "capsule":
    z = np.clip(pl[2], -o.size[1], o.size[1])
    return np.linalg.norm(pl - np.array([0, 0, z])) - o.size[0]
  if t == "box":
    q = np.abs(pl) - o.size
    return np.linalg.norm(np.maximum(q, 0)) + min(q.max(), 0.0)
  if t == "cylinder":
    q = np.array([np.hypot(pl[0], pl[1]) - o.size[0], abs(pl[2]) - o.size[1]])
    return np.linalg.norm(np.maximum(q, 0)) + min(q.max(), 0.0)
  if t == "ellipsoid":
    k0 = np.linalg.norm(pl / o.size)
    k1 = np.linalg.norm(pl / (o.size * o.size))
    if k1 < 1e-12:
      return -o.size.min()
    return k0 * (k0 - 1.0) / k1
  if t == "mesh":
    return float((o.fn @ pl - o.fd).max())
  raise ValueError(t)


def support_gap(o1, o2, n):
  """Signed separation of the two convex shapes along unit direction n (from 1 to 2):
  min_{p2} n.p2 - max_{p1} n.p1.  The true signed distance is the maximum of this over all unit n."""
  if o1.type == "plane":
    return -support(o2, -n) - n @ o1.pos
  return -support(o2, -n) - support(o1, n)


def _seg_seg(p1, q1, p2, q2):
  """Closest distance between segments [p1,q1] and [p2,q2] (Ericson 5.1.9), float64."""
  d1, d2, r = q1 - p1, q2 - p2, p1 - p2
  a, e, f = d1 @ d1, d2 @ d2, d2 @ r
  if a <= 1e-300 and e <= 1e-300:
    return np.linalg.norm(r)
  if a <= 1e-300:
    s, t = 0.0, np.clip(f / e, 0, 1)
  else:
    c = d1 @ r
    if e <= 1e-300:
      t, s = 0.0, np.clip(-c / a, 0, 1)
    else:
      b = d1 @ d2
      den = a * e - b * b
      s = np.clip((b * f - c * e) / den, 0, 1) if den > 1e-300 else 0.0
      t = (b * s + f) / e
      if t < 0:
        t, s = 0.0, np.clip(-c / a, 0, 1)
      elif t > 1:
        t, s = 1.0, np.clip((b - c) / a, 0, 1)
  return np.linalg.norm((p1 + d1 * s) - (p2 + d2 * t))


def closed_form_dist(o1, o2):
  """Exact signed distance (float64) for pair types that have one, else None. o1.type <= o2.type in MuJoCo order."""
  t1, t2 = o1.type, o2.type
  if t1 == "plane" and t2 in ("sphere", "capsule", "ellipsoid", "cylinder", "box", "mesh"):
    n = o1.mat[:, 2]
    return support_gap(o1, o2, n)
  if t1 == "sphere" and t2 in ("sphere", "capsule", "cylinder", "box"):
    return sdf(o2, o1.pos) - o1.size[0]
  if t1 == "capsule" and t2 == "capsule":
    a1, a2 = o1.mat[:, 2] * o1.size[1], o2.mat[:, 2] * o2.size[1]
    return _seg_seg(o1.pos - a1, o1.pos + a1, o2.pos - a2, o2.pos + a2) - o1.size[0] - o2.size[0]
  return None


def minsize(mjm, g):
  """Smallest half-extent of a geom (radius for capsules); penetrations deeper than half of it are treated as
  ill-posed for convex-solver comparisons."""
  t = int(mjm.geom_type[g])
  if t in (0, 1):
    return 1.0
  if t == 7:
    return 0.1
  n = {2: 1, 3: 1, 5: 2, 4: 3, 6: 3}[t]
  return float(np.min(mjm.geom_size[g][:n]))


def frame_defect(fr):
  """max |F F^T - I| and det for a 3x3 frame given as 9 numbers (rows = normal, tangent1, tangent2)."""
  F = np.asarray(fr, dtype=np.float64).reshape(3, 3)
  return float(np.abs(F @ F.T - np.eye(3)).max()), float(np.linalg.det(F))
