"""C35 Rendered depth and segmentation match ray casting.

Differential monitor: mjw.render (BVH megakernel, CPU device) on generated scenes with every geom type, 1-4 worlds with
different poses, several cameras (fovy / intrinsics / orthographic, fixed and tracking), resolutions up to 64x64, precomputed
and per-world pixel rays, back-face culling on and off, varying enabled geom groups and per-camera depth/seg outputs.  Every
pixel's raw rc.depth_data / rc.seg_data entry (and get_depth / get_segmentation) is compared with the nearest hit of that
pixel's camera ray computed in float64 by MuJoCo (mj_multiRay / mj_ray, per-geom table where back-face culling matters);
the pixel ray is rebuilt from MuJoCo's own GL camera frustum (mjv_updateScene), not from MJWarp's compute_ray.
"""

import mujoco
import numpy as np

from mon import core, mw
from mon.props import _rayscene as rs
from mon.props import _renderfam as rf

ID = "C35"
LEVEL = "exploration"
RULE = (
  "case=seed: generated scene (>=1 geom of every type in group 0, others in random groups, static/welded/free/hinged/mocap "
  "bodies), 1-3 cameras of kinds fovy / intrinsic (focal, sensorsize, principal) / orthographic, fixed in the world or on a "
  "mocap body tracking another body; 1-4 worlds with different qpos / mocap poses; resolution from 8x8 to 64x64; "
  "use_precomputed_rays on/off (off: per-world cam_fovy); enable_backface_culling on/off; enabled_geom_groups variants; "
  "per-camera render_depth / render_seg flags and cam_active subsets. On top (mon/props/_renderfam.py, stratified by the case "
  "index so every run has every class): the plane's size class (infinite along x only / y only, by 0 or by a negative size; "
  "both negative; small; long finite strip; large), an extra wall plane in the world or on the mocap body, needle / disc / "
  "plate / beam / tiny / big primitives, big primitives 15-70 units away, an elongated mesh, long / tall / flat / thick-based "
  "hfield, one extra camera (far with narrow fovy / low and grazing over the plane to the horizon / inside the scene / exactly "
  "axis-aligned with odd resolution / inside the bounding box of a diagonal beam), the whole scene translated 20-120 units from "
  "the origin, per-world Model variants (geom_size incl. the plane class, geom_dataid+geom_pos/quat of moving mesh geoms), and "
  "rendering without refit_bvh with all worlds at the pose the context was built at. Non-trivial: >=200 judged pixels with hits "
  "on >=3 geom types; distinct by hash(xml, qpos, options)."
)
ASSUMPTIONS = [
  "MuJoCo 3.13 C mj_multiRay / mj_ray / mju_rayGeom / mj_rayMesh / mj_rayHfield (float64) give the nearest hit; the pixel ray is taken from MuJoCo's GL camera frustum (mjv_updateScene: frustum_center/width/bottom/top/near, orthographic) at pixel centres",
  "rendered geoms = geoms whose group is in enabled_geom_groups; scenes contain no alpha-0 geoms (mj_ray skips them, the renderer's treatment is not specified by the property)",
  "back-face culling is part of 'rendered': with culling on, a geom whose nearest intersection is an exit face (camera inside it) is not rendered; cameras outside every geom form the deciding tier, inside cameras are judged against the per-geom table with exit hits removed",
  "a pixel is judged only if the reference hit (hit/miss, geom up to 1e-4 ties, depth within 1%) is unchanged under 2 ulp-scale and 3 2e-5-scale perturbations of the ray (silhouette / grazing pixels are inconclusive)",
  "depth bound 1e-4*max(1,dist,|origin|) + 50*measured reference noise, violation above 30x; a signature is reported only if >=2 pixels of the case show it (single isolated pixels are tallied)",
  "hits farther than 100 length units (50x the scene extent) are outside the judged domain",
  "intrinsic cameras whose sensor aspect differs from the image aspect are a separate diagnostic tier (MuJoCo stretches, MJWarp crops)",
  "refit_bvh may be skipped only while every world is at the pose create_render_context built the scene BVH at (qpos0, default mocap pose) and the Model is not batched",
  "a mismatching pixel on a plane / primitive is attributed by running MJWarp's own per-geom ray function (ray.ray_geom, float32, no BVH) on the pixel ray and 12 copies perturbed by +-2 float32 ulps against the float64 per-geom reference on the same rays (which must itself be stable): if that function already disagrees the signature is raygeom:float32-unstable:<type>[regime], otherwise the geom was lost by the scene BVH / traversal / shading path (seg:miss, seg:geomid, depth signatures)",
  "mismatching pixels whose ray passes within 1.5 bounding radii of a sphere / capsule / cylinder / ellipsoid whose smallest size parameter is below 5e-3 x its distance from the camera are all reported under the one signature raygeom:float32-cancellation[min size<5e-3*distance] (float32 discriminant of the quadratic ray formulas), whatever their appearance (hole, phantom, wrong depth)",
  "per-world Model variants batch geom_size, geom_dataid, geom_pos, geom_quat, geom_rbound only; a world whose MJWarp geom frames differ from its per-world reference model is not judged",
]
BUDGET = {"quick": 300, "thorough": 1500}

TIE = 1e-4
A_DIST = 1e-4
VIOL = 30.0
MAXDIST = 100.0
RES = [(8, 8), (16, 12), (24, 24), (32, 24), (33, 17), (48, 32), (64, 48), (64, 64)]
GROUPSETS = [[0, 1, 2], [0, 1, 2], [0], [0, 1, 2, 3, 4, 5], [0, 3, 5]]


def cases(tier, seed):
  n = 48 if tier == "quick" else 700
  return [{"id": f"s{seed}_{i}", "seed": seed * 100000 + i} for i in range(n)]


# ------------------------------------------------------------------------------------ reference rays


def gl_frustum(mjm, mjd, camid):
  scn = mujoco.MjvScene(mjm, 1)
  cam = mujoco.MjvCamera()
  cam.type = mujoco.mjtCamera.mjCAMERA_FIXED
  cam.fixedcamid = camid
  mujoco.mjv_updateScene(mjm, mjd, mujoco.MjvOption(), None, cam, 0, scn)
  c = scn.camera[0]
  return {"center": float(c.frustum_center), "width": float(c.frustum_width), "bottom": float(c.frustum_bottom), "top": float(c.frustum_top), "near": float(c.frustum_near), "ortho": bool(c.orthographic)}


def pixel_rays(fr, W, H, cpos, cmat):
  """World-space origin / unit direction / cos(angle to optical axis) of every pixel centre, row-major (py, px)."""
  aspect = W / H
  top, bottom = fr["top"], fr["bottom"]
  if fr["width"] > 0:
    left, right = fr["center"] - fr["width"], fr["center"] + fr["width"]
  else:
    hw = 0.5 * (top - bottom) * aspect
    left, right = fr["center"] - hw, fr["center"] + hw
  px, py = np.meshgrid(np.arange(W), np.arange(H))
  x = left + (right - left) * (px.ravel() + 0.5) / W
  y = top + (bottom - top) * (py.ravel() + 0.5) / H
  R = cmat.reshape(3, 3)
  n = W * H
  if fr["ortho"]:
    org = cpos[None] + x[:, None] * R[:, 0][None] + y[:, None] * R[:, 1][None]
    dirs = np.tile(-R[:, 2], (n, 1))
    return org, dirs, np.ones(n)
  dl = np.stack([x, y, -np.full(n, fr["near"])], axis=1)
  dl /= np.linalg.norm(dl, axis=1, keepdims=True)
  return np.tile(cpos, (n, 1)), dl @ R.T, -dl[:, 2]


def cast(mjm, mjd, org, dirs, gmask, single_origin):
  n = len(dirs)
  dist = np.zeros(n)
  gid = np.zeros(n, np.int32)
  nrm = np.zeros((n, 3))
  if single_origin:
    mujoco.mj_multiRay(mjm, mjd, org[0], dirs.ravel(), gmask, 1, -1, gid, dist, nrm.ravel(), n, mujoco.mjMAXVAL)
    return dist, gid, nrm
  g1 = np.zeros(1, np.int32)
  n1 = np.zeros(3)
  for i in range(n):
    dist[i] = mujoco.mj_ray(mjm, mjd, org[i], dirs[i], gmask, 1, -1, g1, n1)
    gid[i] = g1[0]
    nrm[i] = n1
  return dist, gid, nrm


def hfield_nontop(mjm, mjd, g, org, dirs, dist, nrm):
  R = np.array(mjd.geom_xmat[g]).reshape(3, 3)
  nl = nrm @ R
  hz = ((org + dist[:, None] * dirs - np.array(mjd.geom_xpos[g])) @ R)[:, 2]
  return (np.abs(nl[:, 2]) < 1e-6) | (nl[:, 2] < -0.999) | (hz <= 1e-7)


GTI = mujoco.mjtGeom
# number of size parameters of the geom types MJWarp's ray_geom handles
NSIZE = {int(GTI.mjGEOM_PLANE): 2, int(GTI.mjGEOM_SPHERE): 1, int(GTI.mjGEOM_CAPSULE): 2, int(GTI.mjGEOM_ELLIPSOID): 3, int(GTI.mjGEOM_CYLINDER): 2, int(GTI.mjGEOM_BOX): 3}
_KERNEL = {}
HOSTILE = 5e-3
HOSTILE_SIG = "raygeom:float32-cancellation[min size<5e-3*distance]"


def own_raygeom(wp, pos, mat, size, gt, pnt, vec):
  """Distance returned by MJWarp's own per-geom ray function (ray.ray_geom, float32, no BVH) for n (geom, ray) pairs."""
  if "k" not in _KERNEL:
    from mujoco_warp._src import ray as mray

    @wp.kernel
    def _own_raygeom(pos: wp.array[wp.vec3], mat: wp.array[wp.mat33], size: wp.array[wp.vec3], gt: wp.array[int], pnt: wp.array[wp.vec3], vec: wp.array[wp.vec3], out: wp.array[float]):
      i = wp.tid()
      dd, nn = mray.ray_geom(pos[i], mat[i], size[i], pnt[i], vec[i], gt[i])
      out[i] = dd

    _KERNEL["k"] = _own_raygeom
  n = len(gt)
  out = wp.zeros(n, dtype=float)
  f = lambda a: np.ascontiguousarray(a, dtype=np.float32)  # noqa: E731
  wp.launch(
    _KERNEL["k"],
    dim=n,
    inputs=[wp.array(f(pos), dtype=wp.vec3), wp.array(f(mat).reshape(n, 3, 3), dtype=wp.mat33), wp.array(f(size), dtype=wp.vec3), wp.array(np.ascontiguousarray(gt, dtype=np.int32), dtype=int), wp.array(f(pnt), dtype=wp.vec3), wp.array(f(vec), dtype=wp.vec3)],
    outputs=[out],
  )
  return out.numpy()


def default_state(mjm, like):
  """The pose mjw.create_render_context builds its scene BVH at (qpos0, default mocap pose)."""
  mjd = mujoco.MjData(mjm)
  st = {k: np.array(v, copy=True) for k, v in like.items()}
  st["qpos"] = np.array(mjm.qpos0, dtype=np.float32)
  st["mocap_pos"] = np.array(mjd.mocap_pos, dtype=np.float32).reshape(mjm.nmocap, 3)
  st["mocap_quat"] = np.array(mjd.mocap_quat, dtype=np.float32).reshape(mjm.nmocap, 4)
  return st


def run_case(case):
  import warp as wp

  import mujoco_warp as mjw

  rec = core.Rec(case)
  seed = case["seed"]
  rng = np.random.default_rng(seed + 11)
  ncam = int(rng.integers(1, 4))
  kinds = [("fovy", "intrinsic", "ortho", "fovy", "intrinsic")[int(rng.integers(5))] for _ in range(ncam)]
  res = [RES[int(rng.integers(len(RES)))] for _ in range(ncam)]
  nworld = int(rng.integers(1, 5))
  precomputed = bool(rng.integers(2))
  culling = rng.random() < 0.7
  groups = GROUPSETS[int(rng.integers(len(GROUPSETS)))]
  # scene: camera i uses kinds[i]; intrinsic cameras get the resolution they are rendered at
  xml, info = rs.make_scene(seed, ncam=ncam, p_invisible=0.0, all_groups_have_types=True, cam_opts={"kinds": kinds, "res_list": res, "p_aspect_mismatch": 0.25}, max_extra=5)
  # special-size / special-place families (own random stream; stratified by the case index)
  idx = seed % 100000 + 5 * (seed // 100000)
  rng2 = np.random.default_rng(seed * 3 + 977)
  xml, fam, special, xcam, offset = rf.specialise(xml, info, idx, ncam, rng2)
  if xcam is not None:
    kinds.append(xcam[1])
    res.append(xcam[2])
    info["cams"].append((xcam[0], xcam[1], "world-special"))
    ncam += 1
  norefit = idx % 8 == 7  # all worlds stay at the pose the render context was created with; refit_bvh is not called
  want_variant = idx % 4 == 2 and nworld > 1
  try:
    mjm = mujoco.MjModel.from_xml_string(xml)
  except Exception as e:  # noqa
    rec.rejected = f"mujoco compile: {e}"[:200]
    return rec.result()
  try:
    m = mw.put_model(mjm)
  except (NotImplementedError, ValueError) as e:
    rec.rejected = f"put_model: {e}"[:200]
    return rec.result()
  # model camera ids follow document order (world cameras first): re-index kinds / resolutions by model camera id
  order = [int(mujoco.mj_id2name(mjm, mujoco.mjtObj.mjOBJ_CAMERA, j)[3:]) for j in range(mjm.ncam)]
  kinds = [kinds[k] for k in order]
  res = [res[k] for k in order]
  xcam_id = order.index(ncam - 1) if xcam is not None else -1
  states = [rs.sample_pose(mjm, rng, cam_shell=True) for _ in range(nworld)]
  if norefit:
    states = [default_state(mjm, states[0]) for _ in range(nworld)]
  elif offset is not None:
    for st in states:
      for j in range(mjm.njnt):
        if mjm.jnt_type[j] == mujoco.mjtJoint.mjJNT_FREE:
          a = mjm.jnt_qposadr[j]
          st["qpos"][a : a + 3] = (st["qpos"][a : a + 3].astype(np.float64) + offset).astype(np.float32)
      st["mocap_pos"] = (st["mocap_pos"].astype(np.float64) + offset[None]).astype(np.float32)

  # per-world Model variants: geom sizes (plane size class included) and mesh ids differ between worlds
  xml_w = [xml] * nworld
  variant_on = False
  if want_variant and not norefit:
    mjms = [mjm]
    for w in range(1, nworld):
      xv, _ = rf.variant(xml, info, info["meshes"], rng2)
      try:
        mv = mujoco.MjModel.from_xml_string(xv)
        same = mv.ngeom == mjm.ngeom and np.array_equal(mv.geom_type, mjm.geom_type) and np.array_equal(mv.body_pos, mjm.body_pos) and np.array_equal(mv.cam_pos, mjm.cam_pos)
      except Exception:  # noqa
        same = False
      if same:
        xml_w[w] = xv
        mjms.append(mv)
      else:
        rec.count("variant_world_fell_back_to_base_model")
        mjms.append(mjm)
    m.geom_size = wp.array(np.stack([np.array(x.geom_size, dtype=np.float32) for x in mjms]), dtype=wp.vec3)
    m.geom_dataid = wp.array(np.stack([np.array(x.geom_dataid, dtype=np.int32) for x in mjms]), dtype=int)
    m.geom_pos = wp.array(np.stack([np.array(x.geom_pos, dtype=np.float32) for x in mjms]), dtype=wp.vec3)
    m.geom_quat = wp.array(np.stack([np.array(x.geom_quat, dtype=np.float32) for x in mjms]), dtype=wp.quat)
    m.geom_rbound = wp.array(np.stack([np.array(x.geom_rbound, dtype=np.float32) for x in mjms]), dtype=float)
    variant_on = True
  d = mw.make_data(mjm, m, states)

  # per-world fovy (only meaningful when rays are computed in the kernel)
  fovy_w = np.tile(np.array(mjm.cam_fovy, dtype=np.float32), (nworld, 1))
  batched_fovy = (not precomputed) and nworld > 1 and rng.random() < 0.7
  if batched_fovy:
    for w in range(1, nworld):
      for c in range(ncam):
        if kinds[c] != "intrinsic":
          fovy_w[w, c] = np.float32(fovy_w[0, c] * rng.uniform(0.6, 1.4))
    m.cam_fovy = wp.array(fovy_w, dtype=float)

  # active cameras and per-camera outputs
  active = list(range(ncam))
  removable = [c for c in active if c != xcam_id]  # the special camera stays active
  if len(active) >= 2 and rng.random() < 0.3:
    active.remove(removable[int(rng.integers(len(removable)))])
  rdepth = [bool(rng.random() < 0.8) for _ in active]
  rseg = [bool(rng.random() < 0.8) or not rdepth[i] for i in range(len(active))]
  cam_res = [res[c] for c in active]
  mjw.kinematics(m, d)
  mjw.com_pos(m, d)
  mjw.camlight(m, d)
  try:
    rc = mjw.create_render_context(
      mjm,
      nworld=nworld,
      cam_res=cam_res,
      render_rgb=[False] * len(active),
      render_depth=rdepth,
      render_seg=rseg,
      enabled_geom_groups=groups,
      cam_active=[int(c) for c in active],
      use_precomputed_rays=precomputed,
      enable_backface_culling=bool(culling),
    )
    if not norefit:
      mjw.refit_bvh(m, d, rc)
    mjw.render(m, d, rc)
  except (NotImplementedError, RuntimeError) as e:
    rec.rejected = f"rendering unavailable on this device: {type(e).__name__}: {e}"[:300]
    rec.count("render_unavailable")
    return rec.result()
  depth_all = rc.depth_data.numpy()
  seg_all = rc.seg_data.numpy()
  depth_adr = rc.depth_adr.numpy()
  seg_adr = rc.seg_adr.numpy()
  geom_xpos_all = d.geom_xpos.numpy()
  geom_xmat_all = d.geom_xmat.numpy()
  geom_size_all = m.geom_size.numpy()
  special_tag = {}
  for name, tag in special.items():
    gid_ = mujoco.mj_name2id(mjm, mujoco.mjtObj.mjOBJ_GEOM, name)
    if gid_ >= 0:
      special_tag[int(gid_)] = tag

  gmask = np.zeros(6, np.uint8)
  gmask[groups] = 1
  enabled = np.isin(np.array(mjm.geom_group), groups)
  gtype = np.array(mjm.geom_type)
  pending = {}  # sig -> list of (msg, data)
  judged_hit_types = set()
  njudged = 0

  def flag(sig, msg, **data):
    pending.setdefault(sig, []).append((msg, data))

  for w in range(nworld):
    mjm_w = mjm
    if batched_fovy or xml_w[w] is not xml:
      mjm_w = mujoco.MjModel.from_xml_string(xml_w[w])
      mjm_w.cam_fovy[:] = fovy_w[w]
    mjd = mujoco.MjData(mjm_w)
    mw.apply_state_mj(mjm_w, mjd, states[w])
    mujoco.mj_kinematics(mjm_w, mjd)
    mujoco.mj_comPos(mjm_w, mjd)
    mujoco.mj_camlight(mjm_w, mjd)
    if variant_on:
      # harness guard: the batched Model fields must reproduce this world's geom frames, else nothing can be judged here
      gx = geom_xpos_all[w]
      if not np.allclose(gx, np.array(mjd.geom_xpos), atol=1e-4 * (1 + float(np.max(np.abs(gx)))), rtol=0):
        rec.inconcl("per-world Model variant: geom frames of the batched model differ from the per-world reference model")
        continue
    ref = rs.Ref(mjm_w, mjd)
    gsize_w = np.array(mjm_w.geom_size)
    gxpos_w = np.array(mjd.geom_xpos)
    gxmat_w = np.array(mjd.geom_xmat).reshape(-1, 3, 3)
    for ai, c in enumerate(active):
      W, H = cam_res[ai]
      kind = kinds[c]
      fr = gl_frustum(mjm_w, mjd, c)
      cpos = np.array(mjd.cam_xpos[c])
      cmat = np.array(mjd.cam_xmat[c])
      npx = W * H
      single = not fr["ortho"]
      mism_aspect = False
      if kind == "intrinsic":
        ss = mjm.cam_sensorsize[c]
        mism_aspect = abs(ss[0] / ss[1] - W / H) > 1e-6
        if mism_aspect:
          # MuJoCo's GL frustum ignores the viewport aspect for intrinsic cameras (stretched image); MJWarp documents a
          # crop of the sensor to the image aspect.  Diagnostic tier: pixel rays follow the crop rule.
          sw, sh = float(ss[0]), float(ss[1])
          fx, fy, cx, cy = [float(v) for v in mjm.cam_intrinsic[c]]
          if W / H > sw / sh:
            sh = sw / (W / H)
          else:
            sw = sh * (W / H)
          nr_ = fr["near"]
          left, right = -nr_ / fx * (sw / 2 - cx), nr_ / fx * (sw / 2 + cx)
          fr = dict(fr, top=nr_ / fy * (sh / 2 - cy), bottom=-nr_ / fy * (sh / 2 + cy), center=0.5 * (left + right), width=0.5 * (right - left))
      org, dirs, cosv = pixel_rays(fr, W, H, cpos, cmat)
      tier = ("ortho:" if fr["ortho"] else "") + ("aspect-mismatch(crop-rule):" if mism_aspect else "")
      d0, g0, n0 = cast(mjm_w, mjd, org, dirs, gmask, single)
      # cameras inside a rendered closed geom: the nearest intersection of that geom is an exit face
      inside = []
      if single:
        for g in np.nonzero(enabled)[0]:
          if gtype[g] == rs.GT.mjGEOM_PLANE:
            continue
          v = np.array(mjd.geom_xpos[g]) - cpos
          if np.linalg.norm(v) < 1e-9:
            v = np.array([0, 0, 1.0])
          v /= np.linalg.norm(v)
          dd, nn = ref.geom(g, cpos, v)
          if dd >= 0 and float(v @ nn) > 0:
            inside.append(int(g))
      # stability / noise ensemble
      prng = np.random.default_rng(seed * 7 + w * 13 + c)
      stable = np.ones(npx, bool)
      noise = np.zeros(npx)
      for k in range(5):
        small = k < 2
        if single:
          o2, v2 = rs.perturb(org[:1], dirs[:1], prng, "ulp" if small else "geo")
          _, v2 = rs.perturb(org, dirs, prng, "ulp" if small else "geo")
          o2 = np.tile(o2, (npx, 1))
        else:
          o2, v2 = rs.perturb(org, dirs, prng, "ulp" if small else "geo")
        dk, gk, _ = cast(mjm_w, mjd, o2, v2, gmask, single)
        same = (dk >= 0) == (d0 >= 0)
        both = (dk >= 0) & (d0 >= 0)
        dd = np.where(both, np.abs(dk - d0), 0.0)
        stable &= same & ~(both & (gk != g0) & (dd > TIE)) & (dd < 1e-2 * np.maximum(1.0, d0))
        if small:
          noise = np.maximum(noise, dd)
      exp_d, exp_g = d0.copy(), g0.copy()
      cls = np.array(["miss"] * npx, dtype=object)
      hitm = g0 >= 0
      cls[hitm] = [rs.TYPE_NAMES[int(gtype[g])] for g in g0[hitm]]
      for g in np.unique(g0[hitm]):
        if gtype[g] == rs.GT.mjGEOM_HFIELD:
          sel = g0 == g
          nt = hfield_nontop(mjm_w, mjd, g, org[sel], dirs[sel], d0[sel], n0[sel])
          idx = np.nonzero(sel)[0]
          cls[idx[nt]] = "hfield-side-base"
          cls[idx[~nt]] = "hfield-top"
      backfacing = hitm & (np.einsum("ij,ij->i", dirs, n0) > 1e-9)
      cam_tier = "outside"
      if inside:
        cam_tier = "inside"
        rec.cover("cameras_inside_a_geom", 1)
        if culling:
          # expectation = nearest among per-geom nearest intersections that are entry (front) faces
          geoms = [int(g) for g in np.nonzero(enabled)[0]]
          D, N = ref.table(org, dirs, geoms=geoms)
          front = np.einsum("ij,ikj->ik", dirs, N) <= 0
          E = np.zeros_like(D, dtype=bool)
          E[:, geoms] = True
          ed, eg, _ = rs.nearest(D, E & front)
          changed = (eg != g0) | (np.abs(ed - d0) > 1e-12)
          exp_d, exp_g = ed, eg
          # pixels whose culled geom is a non-convex mesh / hfield could show a farther front face: not modelled
          for i in np.nonzero(changed)[0]:
            if g0[i] >= 0 and gtype[g0[i]] in (rs.GT.mjGEOM_MESH, rs.GT.mjGEOM_HFIELD):
              stable[i] = False
          cls = np.array(["miss"] * npx, dtype=object)
          hm = eg >= 0
          cls[hm] = [rs.TYPE_NAMES[int(gtype[g])] for g in eg[hm]]
          for g in np.unique(eg[hm]):
            if gtype[g] == rs.GT.mjGEOM_HFIELD:
              sel = eg == g
              nt = hfield_nontop(mjm_w, mjd, g, org[sel], dirs[sel], ed[sel], N[sel, g])
              idx = np.nonzero(sel)[0]
              cls[idx[nt]] = "hfield-side-base"
              cls[idx[~nt]] = "hfield-top"
          # stability of the culled expectation is approximated by the stability of the unculled one
      elif culling:
        stable &= ~backfacing  # cannot happen for closed solids seen from outside; if it does, do not judge
      hfdev = cls == "hfield-side-base"

      # ---- observed
      got_depth = depth_all[w, depth_adr[ai] : depth_adr[ai] + npx] if rdepth[ai] else None
      got_seg = seg_all[w, seg_adr[ai] : seg_adr[ai] + npx] if rseg[ai] else None
      rec.cover(f"cams:{kind}", 1)
      rec.cover(f"res:{W}x{H}", 1)
      rec.cover("camtier:" + cam_tier + (",cull" if culling else ",nocull"), 1)

      # orthographic mechanism check: does the image vary at all where the reference varies?
      if fr["ortho"]:
        ref_varies = len(np.unique(g0[stable])) > 1
        img_const = (got_seg is None or len(np.unique(got_seg[:, 0])) == 1) and (got_depth is None or np.ptp(got_depth) == 0)
        rec.check()
        if img_const and not ref_varies and stable.any() and npx > 1:
          # the reference is one geom over all stable pixels but the (constant) image shows something else, or the
          # reference depth varies over the grid while the image depth does not: same mechanism
          if got_seg is not None:
            ref_varies = bool(np.any(np.where(g0[stable] >= 0, g0[stable], -1) != got_seg[0, 0]))
          else:
            ref_varies = bool(np.ptp(np.where(g0[stable] >= 0, d0[stable], 0.0)) > 1e-3)
        if ref_varies and img_const:
          flag("ortho:all-pixels-cast-the-same-ray", f"orthographic camera {c}: image is constant ({'seg ' + str(got_seg[0].tolist()) if got_seg is not None else 'depth ' + str(got_depth[0])}) although the reference hits {len(np.unique(g0[stable]))} different geoms over the {W}x{H} pixel grid (pixel origins are not offset in the image plane)", world=w, cam=int(c))
          flag("ortho:all-pixels-cast-the-same-ray", "second witness (same camera)", world=w, cam=int(c))
          rec.count("ortho_pixels_not_judged_constant_image", npx)
          continue
      far = exp_d > MAXDIST  # e.g. horizon pixels on infinite planes (the scene BVH clips those at +-1000)
      rec.count("pixels_out_of_domain_hit_beyond_100", int(np.sum(far & stable)))
      stable &= ~far
      ok_px = np.nonzero(stable)[0]
      rec.count("pixels_inconclusive_silhouette_or_grazing", int(npx - len(ok_px)))
      scale = np.maximum(1.0, np.maximum(np.abs(exp_d), np.linalg.norm(org, axis=1)))
      bound = A_DIST * scale + 50 * noise
      nj = len(ok_px)
      njudged += nj
      rec.check(nj)
      rec.cover("pixels_judged:" + (tier or "perspective:"), nj)
      # what the special-size families observed: judged pixels whose reference hit is a special geom
      eg_ok = exp_g[ok_px]
      for gid_, tag in special_tag.items():
        cnt = int(np.sum(eg_ok == gid_))
        if cnt:
          rec.cover("special_hits:" + tag, cnt)
      if w > 0 and variant_on:
        differs = np.any(gsize_w != np.array(mjm.geom_size), axis=1) | (np.array(mjm_w.geom_dataid) != np.array(mjm.geom_dataid))
        cnt = int(np.sum(differs[eg_ok[eg_ok >= 0]]))
        if cnt:
          rec.cover("special_hits:per-world-size-or-mesh(world>0)", cnt)
      if xcam_id == c:
        rec.cover("special_cam_pixels_judged:" + xcam[3], nj)
        rec.cover("special_cam_pixels_hit:" + xcam[3], int(np.sum(eg_ok >= 0)))
      if norefit:
        rec.cover("pixels_judged:rendered-without-refit", nj)
      if offset is not None:
        rec.cover("pixels_judged:scene-far-from-origin", nj)
      semi = np.zeros(npx, bool)  # reference hit on a plane that is infinite along exactly one axis
      for g in np.nonzero(enabled & (gtype == rs.GT.mjGEOM_PLANE))[0]:
        sel = ok_px[eg_ok == g]
        if not len(sel):
          continue
        sz = gsize_w[g]
        ninf = int(sz[0] <= 0) + int(sz[1] <= 0)
        pname = ("finite", "semi-infinite", "infinite")[ninf] + (",negative-size" if min(sz[0], sz[1]) < 0 else "")
        rec.cover("plane_hits:" + pname, len(sel))
        lp = (org[sel] + exp_d[sel, None] * dirs[sel] - gxpos_w[g]) @ gxmat_w[g]
        fin = max(sz[0], sz[1])
        if ninf == 1:
          semi[sel] = True
          ax = 0 if sz[0] <= 0 else 1
          rec.cover("plane_hits:semi-infinite:beyond-2x-finite-extent", int(np.sum(np.abs(lp[:, ax]) > 2 * fin)))
        elif ninf == 0:
          rec.cover("plane_hits:finite:outside-the-min-size-square", int(np.sum(np.max(np.abs(lp[:, :2]), axis=1) > min(sz[0], sz[1]))))
      for t in np.unique(cls[ok_px]):
        cnt = int(np.sum(cls[ok_px] == t))
        rec.cover("pixel_hits:" + t, cnt)
        if t != "miss":
          judged_hit_types.add(t)
      # vectorised pass, then a python loop over mismatching pixels only
      bad = np.zeros(npx, bool)
      if got_seg is not None:
        want_id = np.where(exp_g >= 0, exp_g, -1)
        want_ty = np.where(exp_g >= 0, int(mujoco.mjtObj.mjOBJ_GEOM), -1)
        bad |= (got_seg[:, 0] != want_id) | (got_seg[:, 1] != want_ty)
      if got_depth is not None:
        want_depth = np.where(exp_g >= 0, exp_d * cosv, 0.0)
        derr = np.abs(got_depth - want_depth)
        ratio = derr / bound
        okr = ratio[ok_px][~bad[ok_px] & ~hfdev[ok_px]]
        if len(okr):
          rec.worst((tier or "") + "depth", float(np.max(np.where(okr <= VIOL, okr, 0))))
        bad |= ratio > 1
      # float32-hostile neighbourhood: pixels whose ray passes within 1.5 bounding radii of a sphere / capsule / cylinder /
      # ellipsoid whose smallest size parameter is below 5e-3 x its distance from the camera.  The quadratic ray formulas
      # (b*b - a*c in float32) lose their discriminant there; mismatches of such pixels are reported under one signature.
      hostile = np.zeros(npx, bool)
      thin_g = []  # quadratic-formula primitives whose smallest size is below 2e-2 x their distance (candidates for attribution)
      if bad[ok_px].any():
        for g in np.nonzero(enabled)[0]:
          tg = int(gtype[g])
          if tg not in NSIZE or tg in (int(GTI.mjGEOM_PLANE), int(GTI.mjGEOM_BOX)):
            continue
          rel = gxpos_w[g][None] - org
          dist_c = np.linalg.norm(rel, axis=1)
          smin_g = float(np.min(gsize_w[g][: NSIZE[tg]]))
          if smin_g < 2e-2 * float(np.max(dist_c)):
            thin_g.append(int(g))
          small_g = smin_g < HOSTILE * dist_c
          if small_g.any():
            perp = np.linalg.norm(np.cross(rel, dirs), axis=1)
            hostile |= small_g & (perp < 1.5 * float(mjm_w.geom_rbound[g]))
      # mechanism discriminator for mismatching pixels whose reference hit is a plane / primitive: MJWarp's own per-geom
      # ray function (float32, no BVH) on the same ray.  If that already misses, the ray function is the mechanism
      # (signature raygeom:...); otherwise the geom was lost in the scene BVH / traversal (signature seg:miss:... etc.)
      # (evaluated on the pixel ray and on 12 copies perturbed by +-2 float32 ulps: the renderer builds its own float32 ray)
      # Queried: the reference's geom, and the geom the renderer reports instead (if it is an enabled plane / primitive).
      bad_px, bad_g = [], []
      for i in ok_px[bad[ok_px] & ~hfdev[ok_px]]:
        gq = [int(exp_g[i])]
        if got_seg is not None and got_seg[i, 0] != exp_g[i]:
          gq.append(int(got_seg[i, 0]))
        elif got_seg is None:
          # depth-only camera: the geom the renderer hit is unknown; candidates are the thin / distant primitives
          gq += [int(g) for g in thin_g if g != exp_g[i]]
        for g in gq:
          if 0 <= g < mjm.ngeom and enabled[g] and int(gtype[g]) in NSIZE:
            bad_px.append(int(i))
            bad_g.append(g)
      own = {}
      if bad_px:
        NP = 13
        gsel = np.tile(np.array(bad_g), NP)
        o_, v_ = np.tile(org[bad_px], (NP, 1)), np.tile(dirs[bad_px], (NP, 1))
        nb = len(bad_px)
        o_[nb:], v_[nb:] = rs.perturb(o_[nb:], v_[nb:], prng, "ulp")
        od = own_raygeom(wp, geom_xpos_all[w][gsel], geom_xmat_all[w][gsel], geom_size_all[w % len(geom_size_all)][gsel], gtype[gsel], o_, v_).reshape(NP, nb)
        for k, i in enumerate(bad_px):
          own.setdefault(i, []).append((bad_g[k], od[:, k], o_[k::nb], v_[k::nb]))
      for i in ok_px[bad[ok_px]]:
        px, py = int(i % W), int(i // W)
        hc = cls[i] + ("[semi-infinite]" if semi[i] else "")
        ctx = dict(world=w, cam=int(c), kind=kind, px=px, py=py, res=[W, H], ref_geom=int(exp_g[i]), ref_dist=float(exp_d[i]), ref_class=str(hc), culling=bool(culling), precomputed=bool(precomputed), groups=groups, camera_inside=inside)
        sg = got_seg[i].tolist() if got_seg is not None else None
        dp = float(got_depth[i]) if got_depth is not None else None
        ctx.update(got_seg=sg, got_depth=dp, families=fam, refit=not norefit, per_world_model=variant_on, ref_geom_size=(gsize_w[exp_g[i]].tolist() if exp_g[i] >= 0 else None))
        if hfdev[i]:
          flag("render:hfield-side-base-not-rendered", f"pixel ({px},{py}) cam {c}: reference nearest hit is the side wall / base of hfield geom {int(exp_g[i])} at {exp_d[i]:.5g}; renderer reports seg {sg} depth {dp}", **ctx)
          continue
        pre = tier + ("inside-cull:" if (inside and culling) else "")
        attributed = False
        for g_, do, op_, vp_ in own.get(int(i), []):
          rds = np.array([ref.geom(g_, op_[k], vp_[k])[0] for k in range(len(do))])
          rd = float(rds[0])
          if inside and culling and g_ != exp_g[i] and rd >= 0:
            continue  # with exit faces culled, another geom is attributed only if the reference misses it altogether
          if (rd >= 0 and (np.any(rds < 0) or np.ptp(rds) > bound[i])) or (rd < 0 and np.any(rds >= 0)):
            continue  # this geom's own silhouette: nothing can be attributed
          if g_ == exp_g[i]:
            # the reference's geom: its own ray function misses it or puts it elsewhere
            own_wrong = bool(np.any(do < 0) or np.any(np.abs(do - rds) > VIOL * bound[i]))
            dist_ = rd
          else:
            # the geom rendered instead: its own ray function reports a hit in front of the reference's nearest hit
            # although this geom alone is missed by / lies behind that hit in the reference
            limit = exp_d[i] - bound[i] if exp_g[i] >= 0 else np.inf
            own_wrong = bool(np.any((do >= 0) & (do < limit))) and (rd < 0 or rd > limit)
            dist_ = float(np.max(do)) if rd < 0 else rd
          if own_wrong:
            tn = rs.TYPE_NAMES[int(gtype[g_])]
            gsz = gsize_w[g_][: NSIZE[int(gtype[g_])]]
            # regime label: float32 cancellation in the quadratic ray formulas needs a thin or a distant geom
            regime = ""
            if int(gtype[g_]) not in (int(GTI.mjGEOM_PLANE), int(GTI.mjGEOM_BOX)) and float(np.min(gsz)) < 2e-2 * dist_:
              regime = "[min size<2e-2*distance]"
            ctx.update(own_ray_function_dists=do.tolist(), min_size_over_dist=float(np.min(gsz) / max(dist_, 1e-12)), min_over_max_size=float(np.min(gsz) / np.max(gsz)))
            attributed = (
              f"raygeom:float32-unstable:{tn}" + regime,
              f"pixel ({px},{py}): MJWarp's own float32 ray function of {tn} geom {g_} (size {gsz.tolist()}) returns {do.tolist()} on this pixel ray and 12 copies of it perturbed by +-2 float32 ulps; float64 reference for this geom alone: {rd:.6g}; reference nearest hit: geom {int(exp_g[i])} at {exp_d[i]:.6g}; renderer reports seg {sg} depth {dp}",
            )
            break

        def flagx(sig, msg, **data):
          # a pixel that violates the oracle is reported under the ray-function signature when that mechanism was shown
          if hostile[i]:
            flag(HOSTILE_SIG, f"pixel ({px},{py}): the ray passes a sphere/capsule/cylinder/ellipsoid whose smallest size is below {HOSTILE:g} x its distance from the camera" + (" (shown: " + attributed[1] + ")" if attributed else "") + " {" + sig + ": " + msg + "}", **data)
            rec.count("pixels_mismatch_in_float32_hostile_neighbourhood")
          elif attributed:
            flag(attributed[0], attributed[1] + " {" + sig + "}", **data)
          else:
            flag(sig, msg, **data)

        if sg is not None:
          gg = sg[0]
          if exp_g[i] < 0:
            if gg != -1 or sg[1] != -1:
              tn = rs.TYPE_NAMES.get(int(gtype[gg]), "?") if 0 <= gg < mjm.ngeom else "badid"
              if 0 <= gg < mjm.ngeom and not enabled[gg]:
                flag(pre + "seg:disabled-group-geom-rendered", f"pixel ({px},{py}): geom {gg} of a disabled group rendered", **ctx)
              else:
                flagx(pre + f"seg:phantom:{tn}",f"pixel ({px},{py}): seg {sg} where the reference ray hits nothing", **ctx)
              continue
          else:
            if gg == -1:
              flagx(pre + f"seg:miss:{hc}",f"pixel ({px},{py}): background, reference hits {hc} geom {int(exp_g[i])} at {exp_d[i]:.6g}", **ctx)
              continue
            if sg[1] != int(mujoco.mjtObj.mjOBJ_GEOM):
              flag(pre + "seg:objtype", f"pixel ({px},{py}): object type {sg[1]} for a geom hit", **ctx)
              continue
            if gg != exp_g[i]:
              if not (0 <= gg < mjm.ngeom):
                flag(pre + "seg:geomid-out-of-range", f"pixel ({px},{py}): seg {sg}", **ctx)
                continue
              if not enabled[gg]:
                flag(pre + "seg:disabled-group-geom-rendered", f"pixel ({px},{py}): geom {gg} of a disabled group rendered", **ctx)
                continue
              dg, ng = ref.geom(gg, org[i], dirs[i])
              if dg >= 0 and abs(dg - exp_d[i]) <= max(TIE, 2 * bound[i]):
                rec.count("pixels_tie_other_geom")
                continue
              gt = rs.TYPE_NAMES[int(gtype[gg])]
              flagx(pre + f"seg:geomid:{hc}",f"pixel ({px},{py}): seg geom {gg} ({gt}, own distance {dg:.6g}); reference nearest is {hc} geom {int(exp_g[i])} at {exp_d[i]:.6g}", **ctx)
              continue
        if dp is not None:
          want = float(exp_d[i] * cosv[i]) if exp_g[i] >= 0 else 0.0
          r_ = abs(dp - want) / bound[i]
          if r_ > VIOL:
            # distinguish the classic 'raw distance instead of planar depth'
            kindsig = "depth"
            if exp_g[i] >= 0 and abs(dp - exp_d[i]) <= bound[i] and cosv[i] < 0.999:
              kindsig = "depth:euclidean-not-planar"
            flagx(pre + f"{kindsig}:{hc}",f"pixel ({px},{py}): depth {dp:.7g} vs reference planar depth {want:.7g} (dist {exp_d[i]:.7g} x cos {cosv[i]:.5g}), bound {bound[i]:.3g}", **ctx)
          elif r_ > 1:
            rec.count("pixels_depth_greyzone")

  # helper API consistency (get_depth clamps depth/scale to [0,1]; get_segmentation copies)
  for ai, c in enumerate(active):
    W, H = cam_res[ai]
    if rdepth[ai]:
      out = wp.zeros((nworld, H, W), dtype=float)
      sc = 5.0
      mjw.get_depth(rc, ai, sc, out)
      raw = depth_all[:, depth_adr[ai] : depth_adr[ai] + W * H].reshape(nworld, H, W)
      rec.check()
      if not np.allclose(out.numpy(), np.clip(raw / sc, 0, 1), atol=1e-6):
        flag("get_depth:differs-from-raw", f"get_depth(camera_index={ai}) != clamp(rc.depth_data/scale)", cam=int(c))
        flag("get_depth:differs-from-raw", "second witness", cam=int(c))
    if rseg[ai]:
      out = wp.zeros((nworld, H, W), dtype=wp.vec2i)
      mjw.get_segmentation(rc, ai, out)
      raw = seg_all[:, seg_adr[ai] : seg_adr[ai] + W * H].reshape(nworld, H, W, 2)
      rec.check()
      if not np.array_equal(out.numpy(), raw):
        flag("get_segmentation:differs-from-raw", f"get_segmentation(camera_index={ai}) != rc.seg_data slice", cam=int(c))
        flag("get_segmentation:differs-from-raw", "second witness", cam=int(c))

  for sig, lst in pending.items():
    if len(lst) >= 2:
      msg, data = lst[0]
      rec.viol(sig, msg + f" [{len(lst)} pixels of this case]", **data)
    else:
      rec.count("isolated_single_pixel_mismatch")
      rec.cover("isolated_pixel:" + sig, 1)
  rec.cover("worlds:" + str(nworld), 1)
  rec.cover("rays:" + ("precomputed" if precomputed else ("per-world-fovy" if batched_fovy else "in-kernel")), 1)
  rec.cover("culling:" + ("on" if culling else "off"), 1)
  rec.cover("groups:" + ",".join(map(str, groups)), 1)
  rec.cover("outputs:" + ("partial" if not (all(rdepth) and all(rseg)) else "all"), 1)
  rec.cover("cam_active:" + ("subset" if len(active) < ncam else "all"), 1)
  for _, k, place in info["cams"]:
    rec.cover("camplace:" + place, 1)
  for k, v in fam.items():
    rec.cover(f"fam:{k}:{v}" if k in ("plane", "camera", "hfield", "offset") else f"fam:{k}", 1)
  rec.cover("fam:refit:" + ("skipped(worlds at the context's build pose)" if norefit else "called"), 1)
  if variant_on:
    rec.cover("fam:per-world-model(geom_size,geom_dataid)", 1)
  if njudged >= 200 and len(judged_hit_types) >= 3:
    rec.nontrivial(xml, *[s["qpos"] for s in states], str((res, precomputed, culling, groups, active)))
  rec.sample = {"scene_seed": seed, "ngeom": mjm.ngeom, "nworld": nworld, "cameras": [(kinds[c], list(res[c])) for c in active], "precomputed_rays": precomputed, "culling": bool(culling), "groups": groups, "pixels_judged": njudged, "hit_types": sorted(judged_hit_types), "families": fam, "refit": not norefit, "per_world_model": variant_on}
  return rec.result()


def requirements(agg, tier):
  unmet = []
  cov = agg["cover"]
  for t in ("plane", "hfield-top", "sphere", "capsule", "ellipsoid", "cylinder", "box", "mesh", "miss"):
    if cov.get("pixel_hits:" + t, 0) < 200:
      unmet.append(f"fewer than 200 judged pixels of class {t}")
  for k in ("cams:fovy", "cams:intrinsic", "cams:ortho", "rays:precomputed", "rays:in-kernel", "rays:per-world-fovy", "culling:on", "culling:off", "worlds:1", "worlds:4", "outputs:partial", "cam_active:subset", "camplace:world", "camplace:mocap"):
    if cov.get(k, 0) < 1:
      unmet.append(f"configuration never exercised: {k}")
  if cov.get("pixels_judged:perspective:", 0) < 20000:
    unmet.append("fewer than 20000 judged perspective pixels")
  # the special-size / special-place families must have observed something (judged pixels whose reference hit is such a geom)
  import os

  if os.environ.get("C35_DUMP_COVER"):
    import json

    with open(os.environ["C35_DUMP_COVER"], "w") as f:
      json.dump({k: v for k, v in sorted(cov.items()) if isinstance(v, int)}, f, indent=1)

  def total(prefix, contains=""):
    return sum(v for k, v in cov.items() if k.startswith(prefix) and contains in k and isinstance(v, int))

  big = tier != "quick"
  need = [
    ("plane_hits:semi-infinite:beyond-2x-finite-extent", "", 300, "judged pixels on a plane infinite along one axis, farther than 2*max(size) from its origin"),
    ("plane_hits:semi-infinite", "", 1000, "judged pixels on planes infinite along exactly one axis"),
    ("plane_hits:infinite", "", 300, "judged pixels on planes infinite along both axes"),
    ("plane_hits:finite", "", 300, "judged pixels on finite planes"),
    ("plane_hits:", "negative-size", 200, "judged pixels on planes whose infinite axis is given by a negative size"),
    ("special_hits:plane2:", "", 200, "judged pixels on the extra wall / mocap-mounted plane"),
    ("special_hits:shape:", "", 500, "judged pixels on needle / disc / plate / beam / tiny / big primitives"),
    ("special_hits:far", "", 100, "judged pixels on big primitives 15-70 units away"),
    ("special_hits:mesh:elongated", "", 20, "judged pixels on the elongated mesh"),
    ("special_hits:hfield:", "", 50, "judged pixels on a long / tall / flat / thick-based hfield"),
    ("special_hits:per-world-size-or-mesh(world>0)", "", 100, "judged pixels on geoms whose size / mesh differs from world 0's"),
    ("pixels_judged:rendered-without-refit", "", 1000, "judged pixels rendered without refit_bvh (worlds at the build pose)"),
    ("pixels_judged:scene-far-from-origin", "", 1000, "judged pixels of scenes translated far from the origin"),
  ]
  for mode in ("far", "low", "inside", "axis", "aabb"):
    need.append(("special_cam_pixels_hit:" + mode, "", 100, f"judged hit pixels of the special camera placement '{mode}'"))
  for prefix, contains, n, what in need:
    if total(prefix, contains) < n * (5 if big else 1):
      unmet.append(f"special family observed too little: fewer than {n * (5 if big else 1)} {what}")
  if agg["distinct"] < 15:
    unmet.append("fewer than 15 distinct non-trivial cases")
  return unmet
