"""C18 Broadphase choice does not change contacts.

Metamorphic monitor: for one scene and pose set, mjw.collision is run under every broadphase type (NXN, SAP_TILE,
SAP_SEGMENTED) x every broadphase filter mask (0..15) on the same Data; the contact multiset of every world (all contact
fields, bitwise after canonical sorting) must equal the one of the all-pairs broadphase without any filter, which sends
every candidate pair to the (shared) narrowphase.

Scene families: random crowds, pairs steered to the distances where a bounding-volume filter decides, articulated trees,
and 'sapband' scenes where the sweep itself decides (pairs separated along the sweep axis whose projected intervals only
overlap thanks to margin or gap, with geoms of other pairs sorted between them; explicit pairs; per-world rows of the
batched geom fields the broadphase reads).
"""

import inspect
import re
import xml.etree.ElementTree as ET

import mujoco
import numpy as np

from mon import core, gen, mw
from mon.props import _col

ID = "C18"
LEVEL = "exploration"
RULE = (
  "case=(kind,size class,nworld,sleep,seed): 'crowd' scenes of 6/10/14 random geoms (all types incl. meshes) thrown into a "
  "box over a (tilted) plane and/or height field, 5% coincident centres (ties in the sweep projection), margins, gaps, explicit "
  "<pair>s with their own margin/gap, excludes; 'pairs' scenes with pairs steered to grazing / margin-band / gap-band distances "
  "(where a bounding-volume filter decides); 'tree' scenes from mon.gen (several geoms per body, welded bodies, parent filter); "
  "'sapband' scenes (2 of 5 cases) where the sweep itself decides: 3-7 pairs, each on its own line parallel to the sweep axis, all "
  "lines over the same stretch of the axis so that the sorted order interleaves geoms of different pairs; geom margins <=0.08 "
  "(<=0.15 in margin scenes) and gaps <=0.3, half of the geoms spheres / elongated shapes pointing along the line (tight bounding "
  "spheres); the pair's surface distance is steered into the gap band (50%), the margin band, the margin+gap edge, penetration or "
  "just outside; some pairs explicit with own margin/gap (half of those between geoms without any), one excluded, optional far plane; "
  "1 in 4 multi-world sapband cases carries two rows of geom_size/_rbound/_aabb/_margin/_gap and pair_margin/_gap (world w reads "
  "row w%2, poses steered per row). "
  "'lateplane' scenes (6 extra cases on quick, 1 per 8 on thorough): 3-7 free geoms declared BEFORE 1-3 arbitrarily rotated planes that sit on jointless "
  "child bodies / nested static bodies / mocap bodies (the plane is the second geom of the pair in geom-id order), every geom randomly "
  "oriented, 0.5-5 m from the plane's origin along the plane, surface distance steered into margin band / gap band / edge / penetration / outside. "
  "nworld in {1,2,5,16} with different poses per world; sleep flag on with random trees marked asleep in most of the sleep cases; those also run the "
  "two-pass protocol of step() (collision with the trees asleep, then all awake with collision(awake_prev=...) appending the skipped "
  "pairs) under all three broadphases x masks {0,15}, compared with the two-pass result of NXN/no filter. "
  "48 (broadphase, filter) configurations per case (quick tier: 18 for the sleep and the batched cases, masks 0,1,2,4,8,15). Non-trivial: baseline has >=1 contact and >=1 candidate pair is rejected by "
  "some filter (fewer broadphase pairs than the unfiltered run); distinct by hash(xml, poses)."
)
ASSUMPTIONS = [
  "baseline = NXN broadphase with filter mask 0: every non-excluded geom pair reaches the narrowphase, which decides on distance alone",
  "capacities are ample (naconmax >= nworld * number of geom pairs); a set overflow bit or a counter above capacity makes the case inconclusive",
  "sleep states are written directly into Data.body_awake after kinematics (tree-consistent), not produced by stepping",
  "collision_primitive's process-global dispatch list (finding F6, property C36) is pinned per case",
  "the sweep axis is the literal in collision_driver.sap_broadphase (parsed from its source, else (0.5935,0.7790,0.1235)); it only steers the sapband poses and the coverage counters, never a verdict",
  "per-world rows of batched Model fields are written into the Model returned by put_model (world w reads row w % 2); each row is a model compiled by MuJoCo, so rbound/aabb are MuJoCo's own",
]
BUDGET = {"quick": 600, "thorough": 2400}

FIELDS = ("geom", "dist", "pos", "frame", "includemargin", "friction", "solref", "solreffriction", "solimp", "dim", "type")
BITS = {1: "PLANE", 2: "SPHERE", 4: "AABB", 8: "OBB"}
BP = {0: "NXN", 1: "SAP_TILE", 2: "SAP_SEGMENTED"}

TREE_PROFILE = gen.profile(
  nbody=(3, 6), collide=True, contact_rich=True, p_plane=0.6, p_mesh=0.15, p_pair=0.4, p_exclude=0.3, p_weld=0.3, p_site=0.0, p_margin=0.3,
  flags_disable=("filterparent",),
)  # fmt: skip


def cases(tier, seed):
  out = []
  n = 40 if tier == "quick" else 900
  for i in range(n):
    kind = ("crowd", "sapband", "pairs", "tree", "sapband")[i % 5]
    nworld = (1, 2, 5, 16)[(i // 5) % 4]
    sleep = (i // 5) % 7 in (4, 5)
    case = {"id": f"{kind}{seed}_{i}", "kind": kind, "nworld": nworld, "sleep": sleep, "size": (6, 10, 14)[i % 3], "seed": seed * 1000003 + i, "weight": 1 + nworld // 4}
    if kind == "sapband" and nworld > 1 and i % 10 == 9:
      nworld = case["nworld"] = max(nworld, 5)
      # two rows of geom_size/_rbound/_aabb/_margin/_gap and pair_margin/_gap (world w reads row w % 2); one kernel
      # specialisation per leading size, so always 2 rows and never together with the sleep variants
      case["batched"], case["sleep"] = True, False
    if tier == "quick" and (case["sleep"] or case.get("batched")):
      # the sleep and the batched variants are separate specialisations of every (broadphase, mask) kernel: on the quick
      # tier they see no filter, each single filter and all filters; all 16 masks on the thorough tier
      case["masks"] = [0, 1, 2, 4, 8, 15]
    out.append(case)
  # 'lateplane' cases (appended, so the cases above keep their ids and seeds): small scenes, all 16 masks on both tiers
  for j in range(6 if tier == "quick" else n // 8):
    nworld = (2, 1, 5, 16)[j % 4]
    out.append({"id": f"lateplane{seed}_{j}", "kind": "lateplane", "nworld": nworld, "sleep": False, "size": (6, 10, 14)[j % 3], "seed": seed * 1000003 + 500000 + j, "weight": 1 + nworld // 4})
  return out


SWEEP_DEFAULT = (0.5935, 0.7790, 0.1235)
_SWEEP = None


def sweep_axis():
  """Unit sweep direction of the sweep-and-prune broadphases, read from the source of collision_driver.sap_broadphase
  (it is a literal there). Only used to steer poses and to count what was exercised, never to judge."""
  global _SWEEP
  if _SWEEP is None:
    a, src = np.array(SWEEP_DEFAULT), "default"
    try:
      from mujoco_warp._src import collision_driver as cdrv

      fn = cdrv.sap_broadphase
      while hasattr(fn, "__wrapped__"):
        fn = fn.__wrapped__
      mt = re.search(r"direction\s*=\s*wp\.vec3\(\s*([-+\d.eE]+)\s*,\s*([-+\d.eE]+)\s*,\s*([-+\d.eE]+)\s*\)", inspect.getsource(fn))
      if mt:
        v = np.array([float(mt.group(k)) for k in (1, 2, 3)])
        if np.isfinite(v).all() and np.linalg.norm(v) > 1e-6:
          a, src = v, "parsed"
    except Exception:
      pass
    _SWEEP = (a / np.linalg.norm(a), src)
  return _SWEEP


def _quat_z_to(u):
  c = float(u[2])
  if c < -0.999999:
    return np.array([0.0, 1.0, 0.0, 0.0])
  q = np.array([1.0 + c, -u[1], u[0], 0.0])
  return q / np.linalg.norm(q)


BAND_CLASSES = ("gap", "margin", "edge", "pen", "outside")


def _draw_band(rng, margin, gap):
  """(class, signed surface distance) a steered pair is placed at; margin/gap are the pair's detection parameters."""
  r = rng.random()
  if r < 0.5 and gap > 0:
    return "gap", margin + gap * rng.uniform(0.25, 0.98)
  if r < 0.7 and margin > 0:
    return "margin", margin * rng.uniform(0.05, 0.98)
  if r < 0.8:
    return "edge", margin + gap + rng.normal() * 0.003
  if r < 0.9:
    return "pen", rng.uniform(-0.03, -0.001)
  return "outside", margin + gap + rng.uniform(0.01, 0.15)


def _pair_id(mjm, ga, gb):
  for i in range(mjm.npair):
    if {int(mjm.pair_geom1[i]), int(mjm.pair_geom2[i])} == {ga, gb}:
      return i
  return -1


def place_sapband(mjm, info, steer, rng):
  """One world of the 'sapband' family. Every steered pair sits on its own line parallel to the sweep axis (lines 2.5
  apart, so pairs of different lines never touch), all lines cover the same stretch of the axis, so that the sweep
  order interleaves the geoms of different pairs: between the two geoms of a pair the sorted list holds geoms of other
  lines. The pair's surface distance is steered (bisection on mj_geomDistance) into the gap band / margin band / edge.

  Returns (qpos, per-pair description in float64: which term makes the projected intervals overlap, how many geoms the
  sweep order places between the two)."""
  axis, _ = sweep_axis()
  e1 = np.array([0.0, 0.0, 1.0]) - axis[2] * axis
  e1 /= np.linalg.norm(e1)
  e2 = np.cross(axis, e1)
  mjd = mujoco.MjData(mjm)
  nb = len(info["body_geom"])
  qpos = np.zeros(mjm.nq)
  gid = lambda b: mujoco.mj_name2id(mjm, mujoco.mjtObj.mjOBJ_GEOM, info["body_geom"][b])
  loners = [b for b in range(nb) if not any(b in p for p in steer)]
  slots = [int(s) for s in rng.permutation(len(steer) + len(loners))]
  origin = lambda s: np.array([0.0, 0.0, 3.0]) + e1 * 2.5 * (s % 2) + e2 * 2.5 * (s // 2) + axis * rng.uniform(-0.5, 0.5)
  for b in loners:
    _col._set_body_pose(qpos, b, origin(slots.pop()), _col.rquat(rng))
  cls = {}
  for a, b in steer:
    ga, gb = gid(a), gid(b)
    r = rng.random()
    u = axis * rng.choice([-1.0, 1.0])
    if r > 0.6:
      u = u + rng.normal(size=3) * 0.2 if r < 0.85 else rng.normal(size=3)
      u /= np.linalg.norm(u)
    # elongated shapes pointing along the line make the bounding sphere tight in that direction
    qa = _quat_z_to(u) if rng.random() < 0.4 else (_col.axis_quat(rng) if rng.random() < 0.2 else _col.rquat(rng))
    qb = _quat_z_to(u) if rng.random() < 0.4 else (_col.axis_quat(rng) if rng.random() < 0.2 else _col.rquat(rng))
    base = origin(slots.pop())
    _col._set_body_pose(qpos, a, base, qa)
    pid = _pair_id(mjm, ga, gb)
    if pid >= 0:
      margin, gap = float(mjm.pair_margin[pid]), float(mjm.pair_gap[pid])
    else:
      margin, gap = float(mjm.geom_margin[ga] + mjm.geom_margin[gb]), float(mjm.geom_gap[ga] + mjm.geom_gap[gb])
    c, tgt = _draw_band(rng, margin, gap)
    lo, hi = 0.0, info["rbound"][a] * 1.6 + info["rbound"][b] * 1.6 + max(tgt, 0.0) + 0.3
    _col._set_body_pose(qpos, b, base + u * hi, qb)
    if _col._geomdist(mjm, mjd, qpos, ga, gb, distmax=3.0) > tgt:
      for _ in range(22):
        mid = 0.5 * (lo + hi)
        _col._set_body_pose(qpos, b, base + u * mid, qb)
        if _col._geomdist(mjm, mjd, qpos, ga, gb, distmax=3.0) > tgt:
          hi = mid
        else:
          lo = mid
    _col._set_body_pose(qpos, b, base + u * hi, qb)
    cls[(ga, gb)] = c
  qpos = qpos.astype(np.float32).astype(np.float64)
  mjd.qpos[:] = qpos
  mujoco.mj_kinematics(mjm, mjd)
  proj = mjd.geom_xpos @ axis
  rb = np.where(mjm.geom_rbound > 0, mjm.geom_rbound, 1e10)
  mg, gp = np.array(mjm.geom_margin), np.array(mjm.geom_gap)

  def skipped(radius, ga, gb):
    """Would a sweep over intervals proj +- radius skip the pair? The range of a sorted element ends one element after
    the last one whose interval starts inside its own, so the later geom is skipped iff the intervals are disjoint and
    some other geom starts in the space between them."""
    lo, up = proj - radius, proj + radius
    f, s = (ga, gb) if lo[ga] <= lo[gb] else (gb, ga)
    other = np.ones(mjm.ngeom, dtype=bool)
    other[[ga, gb]] = False
    return bool(up[f] < lo[s] and np.any(other & (lo > up[f]) & (lo < lo[s])))

  desc = []
  full = rb + mg + gp
  for (ga, gb), c in cls.items():
    l0, l1 = sorted((proj[ga] - full[ga], proj[gb] - full[gb]))
    desc.append({
      "g": (ga, gb), "class": c, "explicit": _pair_id(mjm, ga, gb) >= 0,
      "between": int(np.sum((proj - full > l0) & (proj - full < l1))),  # geoms the sweep order puts between the two
      # the sweep reaches the pair, but would skip it had the interval radius lost this term
      "needs": [] if skipped(full, ga, gb) else [k for k, r in (("gap", rb + mg), ("margin", rb + gp), ("margin_or_gap", rb)) if skipped(r, ga, gb)],
      "skipped": skipped(full, ga, gb),  # the geoms' intervals are disjoint (only an explicit pair's own margin/gap can make this a contact)
    })  # fmt: skip
  return qpos, desc


def make_sapband(case, rng, flags):
  """Scene of the 'sapband' family: free bodies with one geom each (half of them spheres: tight bounding spheres), large
  margins (<= 0.08) and gaps (<= 0.3) per geom, explicit <pair>s with their own margin/gap on some steered pairs, an
  exclude on a steered pair, optionally a far static plane (infinite projected interval). Margins and gaps are written
  into the compiled MjModel (same effect as the MJCF attributes; bounding volumes do not depend on them)."""
  nworld = case["nworld"]
  types = ["sphere", "capsule", "ellipsoid", "cylinder", "box", "mesh"]
  plane = rng.random() < 0.25
  nb = case["size"] - int(plane)
  bt = [("sphere" if rng.random() < 0.45 else types[int(rng.integers(6))]) for _ in range(nb)]
  steer = [(2 * k, 2 * k + 1) for k in range(nb // 2)]
  prs = [p for p in steer if rng.random() < 0.25]
  exs = [steer[int(rng.integers(len(steer)))]] if rng.random() < 0.3 else []
  exs = [p for p in exs if p not in prs]
  opts = {"flags": flags, "p_margin": 0.0, "p_params": 0.1, "plane": plane, "plane_tilt": False, "pairs": prs, "excludes": exs}
  xml, info = _col.build_scene(rng, bt, opts)
  xmls = [xml]
  # batched cases: per field one row is lean (small sizes / no margin / no gap; mostly row 0) and the other generous, so
  # that a world reading the wrong row of one field loses the term its contacts depend on
  lean = {k: (int(rng.random() > 0.7) if case.get("batched") else -1) for k in ("size", "margin", "gap")}
  if case.get("batched"):
    root = ET.fromstring(xml)
    for g in root.iter("geom"):
      if g.get("type") in ("sphere", "capsule", "ellipsoid", "cylinder", "box"):
        s0 = np.array([float(v) for v in g.get("size").split()])
        g.set("size", _col._f(s0 * (rng.uniform(1.1, 1.6) if lean["size"] == 0 else rng.uniform(0.6, 0.9))))
    xmls.append(ET.tostring(root, encoding="unicode"))
  native_on = "nativeccd" not in flags
  BOX = int(mujoco.mjtGeom.mjGEOM_BOX)
  variants = []
  margin_scene = rng.random() < 0.4  # mostly gap-free geoms with wide margins: the margin alone decides the sweep
  bare = [g for p in prs if rng.random() < 0.5 for g in p]  # explicit pairs between geoms without margin/gap of their own
  for vi, x in enumerate(xmls):
    mjm = gen.compile_xml(x)
    if mjm is None:
      return None
    for g in range(mjm.ngeom):
      t = int(mjm.geom_type[g])
      mg = 0.0 if rng.random() < 0.3 else rng.uniform(0.0, 0.15 if margin_scene else 0.08)
      gp = 0.0 if rng.random() < (0.9 if margin_scene else 0.25) else rng.uniform(0.02, 0.3)
      if len(xmls) > 1:
        mg = 0.0 if lean["margin"] == vi else rng.uniform(0.02, 0.1)
        gp = 0.0 if lean["gap"] == vi else rng.uniform(0.08, 0.3)
      if mujoco.mj_id2name(mjm, mujoco.mjtObj.mjOBJ_GEOM, g) in [f"g{b}" for b in bare]:
        mg = gp = 0.0
      if t == BOX and native_on:
        mg = 0.0  # put_model rejects margins on box-box pairs while the native box-box CCD is active
      if t == int(mujoco.mjtGeom.mjGEOM_PLANE):
        mg, gp = min(mg, 0.02), min(gp, 0.05)
      mjm.geom_margin[g], mjm.geom_gap[g] = mg, gp
    for i in range(mjm.npair):
      mg = 0.0 if rng.random() < 0.3 else rng.uniform(0.0, 0.1)
      if native_on and int(mjm.geom_type[mjm.pair_geom1[i]]) == BOX and int(mjm.geom_type[mjm.pair_geom2[i]]) == BOX:
        mg = 0.0
      mjm.pair_margin[i], mjm.pair_gap[i] = mg, (0.0 if rng.random() < 0.25 else rng.uniform(0.02, 0.4))
    variants.append(mjm)
  for mjm in variants:
    mjm.opt.disableflags, mjm.opt.enableflags = variants[0].opt.disableflags, variants[0].opt.enableflags
  info2 = [info]
  if len(variants) == 2:
    info2.append(dict(info, rbound=[float(variants[1].geom_rbound[mujoco.mj_name2id(variants[1], mujoco.mjtObj.mjOBJ_GEOM, n)]) for n in info["body_geom"]]))
  qs, desc = [], []
  for w in range(nworld):
    q, dsc = place_sapband(variants[w % len(variants)], info2[w % len(variants)], steer, rng)
    qs.append(q)
    desc.append(dsc)
  key = "|".join(xmls) + "|" + "|".join(np.concatenate([v.geom_margin, v.geom_gap, v.pair_margin, v.pair_gap]).astype(np.float32).tobytes().hex() for v in variants)
  feats = ["sapband"] + (["static:far_plane"] if plane else []) + (["explicit_pairs"] if prs else []) + (["excludes"] if exs else []) + (["batched_geom_fields"] if len(variants) == 2 else [])
  return key, variants[0], qs, feats, {"variants": variants, "steer": desc}


def make_lateplane(case, rng, flags):
  """Scene of the 'lateplane' family: the free bodies (one geom each) come first, the planes after them, so that in
  geom-id order (the pair order of the all-pairs broadphase) the plane is the SECOND geom of every plane pair. 1-3
  planes, each arbitrarily rotated and with its origin away from the world origin, on a jointless child body of the
  world, on a jointless body nested in a rotated static body, or on a mocap body. Every free geom is steered to one
  plane: random orientation (its own z axis unrelated to the plane normal), centre 0.5-5 m away from the plane's origin
  along the plane, surface distance in the margin band / gap band / at the edge / penetrating / just outside."""
  nworld = case["nworld"]
  types = ["sphere", "capsule", "ellipsoid", "cylinder", "box", "mesh"]
  nplane = int(rng.integers(1, 4))
  nb = max(3, case["size"] // 2)
  bt = [types[int(rng.integers(6))] for _ in range(nb)]
  prs = [tuple(sorted(int(x) for x in rng.choice(nb, size=2, replace=False)))] if rng.random() < 0.3 else []
  opts = {"flags": flags, "p_margin": 0.5, "p_params": 0.1, "polytope_margin": "nativeccd" in flags, "plane": False, "pairs": prs, "excludes": []}
  xml, info = _col.build_scene(rng, bt, opts)
  late, hosts = [], []
  for k in range(nplane):
    a = {"name": f"lp{k}", "type": "plane", "size": "0 0 1"}
    _col.contact_attrs(rng, a, opts, False)
    if rng.random() < 0.5:  # the geom's own frame inside the body contributes to the plane's pose as well
      a["pos"], a["quat"] = _col._f(rng.normal(size=3) * 0.5), _col._f(_col.rquat(rng))
    g = "<geom " + " ".join(f'{k_}="{v}"' for k_, v in a.items()) + "/>"
    # planes far apart (10 m), so that a geom steered to one plane is well above or below the others
    pose = f'pos="{_col._f(rng.normal(size=3) + np.array([0.0, 0.0, -10.0 * k]))}" quat="{_col._f(_col.rquat(rng) * (0.4 if k else 1.0) + np.array([1.0 if k else 0.0, 0, 0, 0]))}"'
    host = ("child", "nested", "mocap")[int(rng.integers(3))]
    hosts.append(host)
    if host == "nested":
      late.append(f'<body name="lo{k}" pos="{_col._f(rng.normal(size=3))}" quat="{_col._f(_col.rquat(rng))}"><body name="lb{k}" {pose}>{g}</body></body>')
    else:
      late.append(f'<body name="lb{k}" {pose}{" mocap=" + chr(34) + "true" + chr(34) if host == "mocap" else ""}>{g}</body>')
  xml = xml.replace("</worldbody>", "".join(late) + "</worldbody>")
  mjm = gen.compile_xml(xml)
  if mjm is None:
    return None
  mjd = mujoco.MjData(mjm)
  PLANE = int(mujoco.mjtGeom.mjGEOM_PLANE)
  planes = [g for g in range(mjm.ngeom) if int(mjm.geom_type[g]) == PLANE]
  qs, desc = [], []
  for w in range(nworld):
    qpos = np.zeros(mjm.nq)
    dsc = []
    for b in range(nb):
      ga = mujoco.mj_name2id(mjm, mujoco.mjtObj.mjOBJ_GEOM, info["body_geom"][b])
      gp = planes[int(rng.integers(len(planes)))]
      q = _col.axis_quat(rng) if rng.random() < 0.2 else _col.rquat(rng)
      _col._set_body_pose(qpos, b, np.zeros(3), q)
      mjd.qpos[:] = qpos
      mujoco.mj_kinematics(mjm, mjd)
      p0, R = mjd.geom_xpos[gp].copy(), mjd.geom_xmat[gp].reshape(3, 3).copy()
      ang, far = rng.uniform(0, 2 * np.pi), rng.uniform(0.5, 5.0)
      base = p0 + R @ np.array([np.cos(ang) * far, np.sin(ang) * far, 1.0])  # 1 m above the plane, far from its origin
      _col._set_body_pose(qpos, b, base, q)
      d1 = _col._geomdist(mjm, mjd, qpos, gp, ga, distmax=3.0)  # = 1 - extent of the geom along the plane normal
      c, tgt = _draw_band(rng, float(mjm.geom_margin[ga] + mjm.geom_margin[gp]), float(mjm.geom_gap[ga] + mjm.geom_gap[gp]))
      _col._set_body_pose(qpos, b, base - R[:, 2] * (d1 - tgt), q)
      dsc.append({"g": (ga, gp), "class": c, "far": float(far)})
    qs.append(qpos.astype(np.float32).astype(np.float64))
    desc.append(dsc)
  feats = ["lateplane"] + [f"lateplane:host:{h}" for h in sorted(set(hosts))] + (["explicit_pairs"] if prs else [])
  return xml, mjm, qs, feats, {"variants": [mjm], "late": desc}


def make(case, rng):
  kind, nworld = case["kind"], case["nworld"]
  flags = {"multiccd": "disable", "nativeccd": "disable"} if rng.random() < 0.5 else {"multiccd": "disable"}
  if case["sleep"]:
    flags["sleep"] = "enable"
  types = ["sphere", "capsule", "ellipsoid", "cylinder", "box", "mesh"]
  if kind == "sapband":
    return make_sapband(case, rng, flags)
  if kind == "lateplane":
    return make_lateplane(case, rng, flags)
  if kind in ("crowd", "pairs"):
    n = case["size"]
    opts = {"flags": flags, "p_margin": 0.4, "p_params": 0.1, "polytope_margin": "nativeccd" in flags}
    opts["plane"] = rng.random() < 0.6
    opts["plane_tilt"] = rng.random() < 0.5
    opts["hfield"] = rng.random() < 0.3 and not opts["plane"]
    n -= int(opts["plane"]) + int(opts["hfield"])
    bt = [types[int(rng.integers(6))] for _ in range(n)]
    if kind == "pairs":  # tight bounding spheres make the sphere filter decide inside the margin band
      bt = [("sphere" if rng.random() < 0.35 else t) for t in bt]
    prs, exs = [], []
    for _ in range(3):
      i, j = sorted(rng.choice(n, size=2, replace=False))
      if rng.random() < 0.6 and (i, j) not in prs:
        prs.append((int(i), int(j)))
      i, j = rng.choice(n, size=2, replace=False)
      if rng.random() < 0.3:
        exs.append((int(i), int(j)))
    if kind == "pairs":
      prs = [(2 * k, 2 * k + 1) for k in range(n // 2) if rng.random() < 0.5]
    opts["pairs"], opts["excludes"] = prs, exs
    xml, info = _col.build_scene(rng, bt, opts)
    mjm = gen.compile_xml(xml)
    if mjm is None:
      return None
    qs = []
    for w in range(nworld):
      if kind == "crowd":
        z0 = -2.72 if opts["hfield"] else 0.05
        qs.append(_col.place_crowd(mjm, info, rng, extent=rng.choice([0.3, 0.5, 0.8]), z0=z0))
      else:
        pairs = [(2 * k, 2 * k + 1) for k in range(n // 2)]
        if opts["plane"] and n % 2:
          pairs.append(("plane", n - 1))
        qs.append(_col.place_pairs(mjm, info, pairs, rng, band_bias=True)[0])
    feats = [kind] + [f"static:{k}" for k in ("plane", "hfield") if opts[k]] + (["explicit_pairs"] if prs else []) + (["excludes"] if exs else [])
    return xml, mjm, qs, feats
  xml, mjm, feat, s = gen.make_model(case["seed"], TREE_PROFILE)
  if mjm is None:
    return None
  mjm.opt.disableflags |= int(mujoco.mjtDisableBit.mjDSBL_MULTICCD) | int(mujoco.mjtDisableBit.mjDSBL_NATIVECCD)
  if case["sleep"]:
    mjm.opt.enableflags |= int(mujoco.mjtEnableBit.mjENBL_SLEEP)
  qs = [np.asarray(gen.sample_state(mjm, rng, quat_scale=False, applied=False)["qpos"], dtype=np.float64) for _ in range(nworld)]
  return xml, mjm, qs, ["tree"] + [f for f in feat if f.startswith(("contact:", "disable:"))]


def canon(c):
  """Canonical order of one world's contacts + one byte string per field."""
  n = len(c["dist"])
  if n == 0:
    return {k: b"" for k in FIELDS}, np.zeros((0, 2), dtype=np.int64)
  rows = []
  for i in range(n):
    rows.append(tuple(int(x) for x in np.asarray(c["geom"][i]).reshape(-1)) + tuple(np.asarray(c[k][i], dtype=np.float32).tobytes() for k in ("dist", "pos", "frame")))
  order = sorted(range(n), key=lambda i: rows[i])
  out = {k: np.ascontiguousarray(np.asarray(c[k])[order]).tobytes() for k in FIELDS}
  return out, np.asarray(c["geom"]).reshape(-1, 2)[order]


def physical_diff(mjm, a, b, xpos):
  """Compares two contact sets of one world as physical contacts (geom order of a pair ignored, normal flipped with it).
  Returns (None, swapped_pairs) if equivalent, else (kind, text)."""

  def norm(c):
    out = {}
    geom = np.asarray(c["geom"]).reshape(-1, 2)
    sw = []
    for i in range(geom.shape[0]):
      g1, g2 = int(geom[i, 0]), int(geom[i, 1])
      n = np.asarray(c["frame"][i], dtype=np.float64).reshape(-1)[:3]
      if g1 > g2 and mjm.geom_type[g1] == mjm.geom_type[g2]:
        g1, g2, n = g2, g1, -n
        sw.append((g1, g2))
      out.setdefault((g1, g2), []).append(i)
      c.setdefault("_n", {})[i] = n
    return out, sw

  ga, _ = norm(a)
  gb, sw = norm(b)
  missing, extra = sorted(set(ga) - set(gb)), sorted(set(gb) - set(ga))
  if missing or extra:
    if missing:
      kind = "missing-pair"

      # the known mechanism needs an explicit pair whose own margin+gap exceeds what the broadphase uses (the geoms' margin+gap)
      def wider(p):
        i = _pair_id(mjm, *p)
        return i >= 0 and float(mjm.pair_margin[i] + mjm.pair_gap[i]) > float(mjm.geom_margin[list(p)].sum() + mjm.geom_gap[list(p)].sum())

      rest = [p for p in missing if not wider(p)]  # pairs the known mechanism does not explain decide the kind
      if not rest:
        kind += ":explicit-pair-margin"
      else:
        missing = rest
        tn = {_col.GEOM_NAMES[int(mjm.geom_type[g])] for p in missing for g in p}
        if all(_pair_id(mjm, *p) >= 0 for p in missing):
          kind += ":explicit-pair"
        else:
          kind += ":plane" if "plane" in tn else (":hfield" if "hfield" in tn else "")
    else:
      kind = "extra-pair"
    return kind, f"missing pairs {missing[:4]}, extra pairs {extra[:4]}"
  swset = set(sw)
  for key in ga:
    ia, ib = ga[key], gb[key]
    if key in swset:
      # roles exchanged in the pair function: manifolds of flat-faced shapes are not unique, compare the deepest contact
      ai, bj = ia[int(np.argmin(np.asarray(a["dist"])[ia]))], ib[int(np.argmin(np.asarray(b["dist"])[ib]))]
      coincident = np.linalg.norm(xpos[key[0]] - xpos[key[1]]) < 1e-6  # normal undefined
      if float(a["dist"][ai]) < -0.5 * min(_col.minsize(mjm, key[0]), _col.minsize(mjm, key[1])):
        continue  # deep penetration: the convex solver's answer depends on which geom plays which role
      if abs(float(a["dist"][ai]) - float(b["dist"][bj])) > 1e-4 + 0.03 * abs(float(a["dist"][ai])) or (np.abs(a["_n"][ai] - b["_n"][bj]).max() > 2e-2 and abs(float(a["dist"][ai])) > 1e-5 and not coincident):
        return "swapped-pair-contact-differs", f"swapped pair {key}: deepest contact differs (dist {a['dist'][ai]} vs {b['dist'][bj]}, normal {a['_n'][ai]} vs {b['_n'][bj]})"
      continue
    if len(ia) != len(ib):
      return "contact-count", f"pair {key}: {len(ib)} contacts vs {len(ia)}"
    pa = np.asarray(a["pos"])[ia].astype(np.float64)
    pb = np.asarray(b["pos"])[ib].astype(np.float64)
    used = set()
    for i, ai in enumerate(ia):
      dd = np.linalg.norm(pb - pa[i], axis=1)
      for j in used:
        dd[j] = np.inf
      j = int(np.argmin(dd))
      used.add(j)
      bj = ib[j]
      # same geom order => same narrowphase computation => bit-equal; swapped order => the pair function ran with the
      # roles exchanged (convex solver tolerance applies)
      tp, td, tn_ = (3e-3, 1e-4, 2e-2) if key in swset else (0.0, 0.0, 0.0)
      if dd[j] > tp or abs(float(a["dist"][ai]) - float(b["dist"][bj])) > td or np.abs(a["_n"][ai] - b["_n"][bj]).max() > tn_:
        return "contact-geometry", f"pair {key}: pos/dist/normal differ (dpos {dd[j]:.3g}, dist {a['dist'][ai]} vs {b['dist'][bj]})"
      for f in ("includemargin", "friction", "solref", "solreffriction", "solimp"):
        x, y = np.asarray(a[f][ai], dtype=np.float64), np.asarray(b[f][bj], dtype=np.float64)
        if np.abs(x - y).max() > (2e-6 * max(1.0, np.abs(x).max()) if key in swset else 0.0):
          return "contact-params:" + f, f"pair {key}: {f} {x} vs {y}"
      if int(a["dim"][ai]) != int(b["dim"][bj]) or int(a["type"][ai]) != int(b["type"][bj]):
        return "contact-params:dim", f"pair {key}: dim/type differ"
  return None, sorted(set(sw))


def run_case(case):
  import mujoco_warp as mjw
  import warp as wp
  from mujoco_warp._src.types import BroadphaseType, SleepState

  rec = core.Rec(case)
  rng = np.random.default_rng(case["seed"])
  made = make(case, rng)
  if made is None:
    rec.rejected = "mujoco compile"
    return rec.result()
  xml, mjm, qs, feats = made[:4]
  extra = made[4] if len(made) > 4 else None
  variants = extra["variants"] if extra else [mjm]  # world w is described by variants[w % len(variants)]
  _col.pin_primitive_dispatch(mjm)
  try:
    m = mw.put_model(mjm)
  except (NotImplementedError, ValueError) as e:
    rec.rejected = f"put_model: {e}"[:200]
    rec.count("rejected_put_model")
    return rec.result()
  if len(variants) > 1:
    nv = len(variants)
    m.geom_size = wp.array(np.stack([v.geom_size for v in variants]).astype(np.float32), dtype=wp.vec3)
    m.geom_rbound = wp.array(np.stack([v.geom_rbound for v in variants]).astype(np.float32), dtype=float)
    m.geom_aabb = wp.array(np.stack([v.geom_aabb for v in variants]).astype(np.float32).reshape(nv, mjm.ngeom, 2, 3), dtype=wp.vec3)
    m.geom_margin = wp.array(np.stack([v.geom_margin for v in variants]).astype(np.float32), dtype=float)
    m.geom_gap = wp.array(np.stack([v.geom_gap for v in variants]).astype(np.float32), dtype=float)
    if mjm.npair:
      m.pair_margin = wp.array(np.stack([v.pair_margin for v in variants]).astype(np.float32), dtype=float)
      m.pair_gap = wp.array(np.stack([v.pair_gap for v in variants]).astype(np.float32), dtype=float)
  nworld = len(qs)
  npair = mjm.ngeom * (mjm.ngeom - 1) // 2
  d = mjw.make_data(mjm, nworld=nworld, nconmax=max(64, 2 * npair + 8 * mjm.ngeom), njmax=8)
  wp.copy(d.qpos, wp.array(np.stack([np.asarray(q, dtype=np.float32) for q in qs]), dtype=float))
  mjw.kinematics(m, d)
  nasleep = 0
  if case["sleep"] and rng.random() < 0.85:
    awake0 = mw.npy(d.body_awake).copy()
    awake = awake0.copy()
    for w in range(nworld):
      for r in range(1, mjm.nbody):
        if mjm.body_parentid[r] == 0 and mjm.body_mocapid[r] < 0 and mjm.body_dofnum[r] > 0 and rng.random() < 0.55:
          # whole kinematic tree rooted at r
          for b in range(r, mjm.nbody):
            if mjm.body_rootid[b] == r:
              awake[w, b] = int(SleepState.ASLEEP)  # 0 (mjS_ASLEEP); dynamic bodies start as AWAKE = 1
              nasleep += 1
    wp.copy(d.body_awake, wp.array(awake, dtype=int))

  def run(bp, mask):
    m.opt.broadphase = BroadphaseType(bp)
    m.opt.broadphase_filter = int(mask)
    d.overflow.zero_()
    mjw.collision(m, d)
    nacon, ncoll = int(mw.npy(d.nacon)[0]), int(mw.npy(d.ncollision)[0])
    ok = not np.any(mw.npy(d.overflow)) and nacon <= d.naconmax and ncoll <= d.naconmax
    return _col.world_contacts(d), ncoll, ok

  xpos = np.array(mw.npy(d.geom_xpos), dtype=np.float64)

  def compare(got, ref, ref_c, key, bad, swapped, tally):
    for w in range(nworld):
      cw, gw = canon(got[w])
      if all(cw[k] == ref_c[w][0][k] for k in FIELDS):
        rec.count(tally + "world_configs_bit_equal")
        continue
      kind, detail = physical_diff(variants[w % len(variants)], ref[w], got[w], xpos[w])
      if kind is None:
        rec.count(tally + "world_configs_equal_up_to_geom_order")
        swapped.setdefault(key, (w, detail))
      else:
        bad.setdefault(kind, {}).setdefault(key, (w, kind, detail))  # first world per (kind, configuration)

  base, ncoll0, ok = run(0, 0)
  if not ok:
    rec.inconcl("capacity overflow in the baseline run")
    return rec.result()
  base_c = [canon(c) for c in base]
  ncon = sum(len(c["dist"]) for c in base)
  min_ncoll = ncoll0
  masks = [int(x) for x in case.get("masks") or range(16)]
  bad = {}  # (bp, mask) -> (world, kind, detail)
  swapped = {}
  for bp in (0, 1, 2):
    for mask in masks:
      if bp == 0 and mask == 0:
        continue
      got, ncoll, ok = run(bp, mask)
      if not ok:
        rec.inconcl(f"capacity overflow under {BP[bp]} mask {mask}")
        continue
      min_ncoll = min(min_ncoll, ncoll)
      rec.check()
      rec.cover(f"configs:{BP[bp]}", 1)
      compare(got, base, base_c, (bp, mask), bad, swapped, "")

  def culprit_of(table):
    """A broadphase type alone, one filter bit alone, or only a combination; plus a representative configuration."""
    culprit = None
    if (1, 0) in table and (2, 0) in table:
      culprit = "SAP"
    else:
      for bp in (1, 2):
        if (bp, 0) in table:
          culprit = BP[bp]
    if culprit is None:
      for bit in (1, 2, 4, 8):
        if any((bp, bit) in table for bp in (0, 1, 2)):
          culprit = "filter-" + BITS[bit]
          break
    if culprit is None:
      culprit = "filter-combination"
    key = sorted(table)[0]
    for k in sorted(table):
      if (culprit in (BP.get(k[0]), "SAP") and k[0] > 0 and k[1] == 0) or (culprit.startswith("filter-") and BITS.get(k[1]) == culprit[7:]):
        key = k
        break
    return culprit, key

  def report(bad, swapped, nconf, prefix, what):
    if swapped:
      culprit, key = culprit_of(swapped)
      if all(k[0] > 0 for k in swapped):
        culprit = "SAP"  # only the sweep-and-prune broadphases emit pairs in projection order
      w, detail = swapped[key]
      rec.viol(
        f"{culprit}:geom-order-swapped",
        f"{what}world {w} under broadphase {BP[key[0]]} filter mask {key[1]}: same physical contacts as NXN/no-filter but contact.geom order (and normal sign) reversed for "
        f"same-type pairs {detail[:6]}; {len(swapped)} of {nconf} configurations affected",
      )
    kinds = []
    for kind, table in sorted(bad.items()):
      if kind == "missing-pair:explicit-pair-margin":
        # two places use the geoms' margin+gap where the explicit pair's own apply: the four bounding-volume filters
        # (any mask != 0, any broadphase) and the sweep's projected intervals (SAP, already without a filter)
        flt = {k: v for k, v in table.items() if k[1] != 0}
        sap = {k: v for k, v in table.items() if k[1] == 0}
        if flt:
          kinds.append((kind, flt, "filter:missing-pair:explicit-pair-margin"))
        if sap:
          kinds.append((kind, sap, "SAP:missing-pair:explicit-pair-margin"))
      else:
        kinds.append((kind, table, None))
    for kind, table, sig in kinds:
      culprit, key = culprit_of(table)
      if kind == "swapped-pair-contact-differs" and all(k[0] > 0 for k in table):
        culprit = "SAP"
        prefix = ""  # consequence of the geom order swap, whichever pass emitted the pair
      sig = sig or f"{prefix}{culprit}:{kind}"
      w, _, detail = table[key]
      rec.viol(
        sig,
        f"{what}contacts of world {w} under broadphase {BP[key[0]]} filter mask {key[1]} differ from NXN/no-filter: {detail}; {len(table)} of {nconf} configurations differ: {sorted(table)[:8]}",
        configs=[list(k) for k in sorted(table)],
      )

  report(bad, swapped, 3 * len(masks) - 1, "", "")

  if nasleep:
    # incremental sleeping pass (step() runs it after the post-collision wake): pass 1 with the marked trees asleep, then
    # every body awake again and collision(awake_prev=...) appends the pairs pass 1 skipped. Same protocol under every
    # broadphase (no filter / all filters); the final contact multiset must not depend on the broadphase either
    asleep_arr, awake_arr = wp.array(awake, dtype=int), wp.array(awake0, dtype=int)

    def run2(bp, mask):
      m.opt.broadphase = BroadphaseType(bp)
      m.opt.broadphase_filter = int(mask)
      d.overflow.zero_()
      wp.copy(d.body_awake, asleep_arr)
      mjw.collision(m, d)
      n1 = int(mw.npy(d.nacon)[0])
      ok = not np.any(mw.npy(d.overflow))
      prev = wp.clone(d.body_awake)
      wp.copy(d.body_awake, awake_arr)
      mjw.collision(m, d, awake_prev=prev)
      nacon = int(mw.npy(d.nacon)[0])
      ok = ok and not np.any(mw.npy(d.overflow)) and nacon <= d.naconmax
      return _col.world_contacts(d), nacon - n1, ok

    base2, added, ok = run2(0, 0)
    if not ok:
      rec.inconcl("capacity overflow in the two-pass baseline run")
    else:
      base2_c = [canon(c) for c in base2]
      bad2, swapped2 = {}, {}
      for bp in (0, 1, 2):
        for mask in (0, 15):
          if bp == 0 and mask == 0:
            continue
          got, _, ok = run2(bp, mask)
          if not ok:
            rec.inconcl(f"capacity overflow in the two-pass run under {BP[bp]} mask {mask}")
            continue
          rec.check()
          rec.cover("incremental:configs", 1)
          compare(got, base2, base2_c, (bp, mask), bad2, swapped2, "incremental:")
      rec.cover("incremental:contacts_added_by_second_pass", added)
      report(bad2, swapped2, 5, "incremental-pass:", "two-pass collision (asleep, then awake with awake_prev): ")
    wp.copy(d.body_awake, asleep_arr)
    d.overflow.zero_()

  if extra and "late" in extra:
    # lateplane family: plane pairs in which the plane has the higher geom id, with a contact in the baseline (so that
    # losing the pair is observable) and the geom's centre further from the plane's origin than its bounding radius
    # plus margins (any distance measured from the plane's origin along a direction other than its normal is off)
    rec.cover("lateplane:planes_not_on_worldbody", sum(int(mjm.geom_type[g]) == 0 and int(mjm.geom_bodyid[g]) > 0 for g in range(mjm.ngeom)))
    for w in range(nworld):
      have = {tuple(sorted(int(x) for x in g)) for g in np.asarray(base[w]["geom"]).reshape(-1, 2)}
      for s in extra["late"][w]:
        ga, gp = s["g"]
        rec.cover(f"lateplane:steered_pairs:{s['class']}", 1)
        if ga < gp and (ga, gp) in have:
          rec.cover("lateplane:contact_pairs_plane_is_second_geom", 1)
          if s["far"] > float(mjm.geom_rbound[ga] + mjm.geom_margin[ga] + mjm.geom_margin[gp]) + 0.1:
            rec.cover("lateplane:contact_pairs_plane_is_second_geom_centre_far_from_plane_origin", 1)
  if extra and "steer" in extra:
    # what the steered pairs of the sapband family exercised: a pair counts when the baseline reports a contact for it
    # (so dropping it is observable); "overlap_by" names the term of the projected interval radius
    # (rbound + margin + gap) without which the sweep would no longer see the two intervals overlap
    rec.cover("sap:sweep_axis", sweep_axis()[1])
    for w in range(nworld):
      have = {tuple(sorted(int(x) for x in g)) for g in np.asarray(base[w]["geom"]).reshape(-1, 2)}
      for s in extra["steer"][w]:
        rec.cover(f"sap:steered_pairs:{s['class']}", 1)
        if tuple(sorted(s["g"])) not in have:
          continue
        tag = "explicit_pairs" if s["explicit"] else "pairs"
        rec.cover(f"sap:contact_{tag}", 1)
        if s["between"] > 0:
          rec.cover(f"sap:contact_{tag}_with_geoms_sorted_between", 1)
        for k in s["needs"]:
          rec.cover(f"sap:contact_{tag}_swept_only_thanks_to_{k}", 1)
        if s["skipped"]:
          rec.cover(f"sap:contact_{tag}_outside_the_sweep_range_of_the_geom_intervals", 1)
    if len(variants) > 1:
      rec.cover("sap:batched_cases", 1)
      rec.cover("sap:batched_worlds_reading_row_1", nworld // 2)
  for f in feats:
    rec.cover("features", f)
  rec.cover(f"nworld:{nworld}", 1)
  rec.cover("baseline_contacts", ncon)
  rec.cover("bodies_marked_asleep", nasleep)
  if case["sleep"]:
    rec.cover("sleep_cases", 1)
  rec.cover("pairs_rejected_by_filters", ncoll0 - min_ncoll)
  if ncon > 0 and min_ncoll < ncoll0:
    rec.nontrivial(xml, *qs)
  rec.sample = {"kind": case["kind"], "nworld": nworld, "ngeom": int(mjm.ngeom), "npair": int(mjm.npair), "sleep": case["sleep"], "bodies_asleep": nasleep, "baseline_contacts": ncon, "broadphase_pairs_unfiltered": ncoll0, "broadphase_pairs_min": min_ncoll}
  return rec.result()


def requirements(agg, tier):
  unmet = []
  cov = agg["cover"]
  for bp in BP.values():
    if cov.get(f"configs:{bp}", 0) < 100:
      unmet.append(f"fewer than 100 configurations observed under {bp}")
  for nw in (1, 2, 5, 16):
    if not cov.get(f"nworld:{nw}"):
      unmet.append(f"nworld={nw} never run")
  feats = set(cov.get("features", []))
  for f in ("crowd", "pairs", "tree", "sapband", "static:plane", "static:hfield", "explicit_pairs", "excludes", "batched_geom_fields"):
    if f not in feats:
      unmet.append(f"feature never generated: {f}")
  # the sapband family must have produced what it exists for: contacts of pairs that the sweep only reaches because
  # margin / gap widen the projected intervals (with another geom starting between the two narrower intervals: the sweep
  # range covers one sorted neighbour too many, so adjacent geoms are always tested)
  for name, least in (("sap:contact_pairs_swept_only_thanks_to_gap", 10), ("sap:contact_pairs_swept_only_thanks_to_margin", 3), ("sap:contact_pairs_with_geoms_sorted_between", 20), ("sap:batched_worlds_reading_row_1", 2)):
    if cov.get(name, 0) < least:
      unmet.append(f"sapband family: {name} = {cov.get(name, 0)} < {least}")
  # the lateplane family must have produced contacts of plane pairs in which the plane is the second geom and the other
  # geom sits far from the plane's origin
  if "lateplane" not in feats:
    unmet.append("feature never generated: lateplane")
  for name, least in (("lateplane:planes_not_on_worldbody", 3), ("lateplane:contact_pairs_plane_is_second_geom", 20), ("lateplane:contact_pairs_plane_is_second_geom_centre_far_from_plane_origin", 10)):
    if cov.get(name, 0) < least:
      unmet.append(f"lateplane family: {name} = {cov.get(name, 0)} < {least}")
  if cov.get("bodies_marked_asleep", 0) < 5:
    unmet.append("fewer than 5 sleeping bodies across sleep cases")
  if cov.get("incremental:configs", 0) < 10 or cov.get("incremental:contacts_added_by_second_pass", 0) < 3:
    unmet.append(f"incremental sleeping pass: {cov.get('incremental:configs', 0)} configurations (<10) or {cov.get('incremental:contacts_added_by_second_pass', 0)} contacts added by the second pass (<3)")
  if cov.get("baseline_contacts", 0) < 200:
    unmet.append("fewer than 200 baseline contacts")
  if cov.get("pairs_rejected_by_filters", 0) < 50:
    unmet.append("filters rejected fewer than 50 candidate pairs: they never decided anything")
  if agg["distinct"] < 20:
    unmet.append("fewer than 20 distinct non-trivial cases")
  return unmet
