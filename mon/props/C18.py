"""C18 Broadphase choice does not change contacts.

Metamorphic monitor: for one scene and pose set, mjw.collision is run under every broadphase type (NXN, SAP_TILE,
SAP_SEGMENTED) x every broadphase filter mask (0..15) on the same Data; the contact multiset of every world (all contact
fields, bitwise after canonical sorting) must equal the one of the all-pairs broadphase without any filter, which sends
every candidate pair to the (shared) narrowphase.
"""

import mujoco
import numpy as np

from mon import core, gen, mw
from mon.props import _col

ID = "C18"
LEVEL = "exploration"
RULE = (
  "case=(kind,size class,nworld,sleep,seed): 'crowd' scenes of 6/10/14 random geoms (all types incl. meshes) thrown into a "
  "box over a (tilted) plane and/or height field, 5% coincident centres (ties in the sweep projection), margins, gaps, explicit "
  "<pair>s with their own margin/gap, excludes; 'pairs' scenes with pairs steered to grazing / margin-band / gap-band distances "
  "(where a bounding-volume filter decides); 'tree' scenes from mon.gen (several geoms per body, welded bodies, parent filter). "
  "nworld in {1,2,5,16} with different poses per world; sleep flag on with random trees marked asleep in half of the sleep cases. "
  "48 (broadphase, filter) configurations per case. Non-trivial: baseline has >=1 contact and >=1 candidate pair is rejected by "
  "some filter (fewer broadphase pairs than the unfiltered run); distinct by hash(xml, poses)."
)
ASSUMPTIONS = [
  "baseline = NXN broadphase with filter mask 0: every non-excluded geom pair reaches the narrowphase, which decides on distance alone",
  "capacities are ample (naconmax >= nworld * number of geom pairs); a set overflow bit or a counter above capacity makes the case inconclusive",
  "sleep states are written directly into Data.body_awake after kinematics (tree-consistent), not produced by stepping",
  "collision_primitive's process-global dispatch list (finding F6, property C36) is pinned per case",
]
BUDGET = {"quick": 450, "thorough": 2400}

FIELDS = ("geom", "dist", "pos", "frame", "includemargin", "friction", "solref", "solreffriction", "solimp", "dim", "type")
BITS = {1: "PLANE", 2: "SPHERE", 4: "AABB", 8: "OBB"}
BP = {0: "NXN", 1: "SAP_TILE", 2: "SAP_SEGMENTED"}

TREE_PROFILE = gen.profile(
  nbody=(3, 6), collide=True, contact_rich=True, p_plane=0.6, p_mesh=0.15, p_pair=0.4, p_exclude=0.3, p_weld=0.3, p_site=0.0, p_margin=0.3,
  flags_disable=("filterparent",),
)  # fmt: skip


def cases(tier, seed):
  out = []
  n = 48 if tier == "quick" else 900
  for i in range(n):
    kind = ("crowd", "crowd", "pairs", "tree")[i % 4]
    nworld = (1, 2, 5, 16)[(i // 4) % 4]
    sleep = (i // 16) % 3 == 2
    out.append({"id": f"{kind}{seed}_{i}", "kind": kind, "nworld": nworld, "sleep": sleep, "size": (6, 10, 14)[i % 3], "seed": seed * 1000003 + i, "weight": 1 + nworld // 4})
  return out


def make(case, rng):
  kind, nworld = case["kind"], case["nworld"]
  flags = {"multiccd": "disable", "nativeccd": "disable"} if rng.random() < 0.5 else {"multiccd": "disable"}
  if case["sleep"]:
    flags["sleep"] = "enable"
  types = ["sphere", "capsule", "ellipsoid", "cylinder", "box", "mesh"]
  if kind in ("crowd", "pairs"):
    n = case["size"]
    opts = {"flags": flags, "p_margin": 0.4, "p_params": 0.1, "polytope_margin": "nativeccd" in flags}
    opts["plane"] = rng.random() < 0.6
    opts["plane_tilt"] = rng.random() < 0.5
    opts["hfield"] = rng.random() < 0.3 and not opts["plane"]
    n -= int(opts["plane"]) + int(opts["hfield"])
    bt = [types[int(rng.integers(6))] for _ in range(n)]
    if kind == "pairs":  # tight bounding spheres make the sphere filter decide inside the margin band
      bt = [("sphere" if rng.random() < 0.35 else t) for t in bt]
    prs, exs = [], []
    for _ in range(3):
      i, j = sorted(rng.choice(n, size=2, replace=False))
      if rng.random() < 0.6 and (i, j) not in prs:
        prs.append((int(i), int(j)))
      i, j = rng.choice(n, size=2, replace=False)
      if rng.random() < 0.3:
        exs.append((int(i), int(j)))
    if kind == "pairs":
      prs = [(2 * k, 2 * k + 1) for k in range(n // 2) if rng.random() < 0.5]
    opts["pairs"], opts["excludes"] = prs, exs
    xml, info = _col.build_scene(rng, bt, opts)
    mjm = gen.compile_xml(xml)
    if mjm is None:
      return None
    qs = []
    for w in range(nworld):
      if kind == "crowd":
        z0 = -2.72 if opts["hfield"] else 0.05
        qs.append(_col.place_crowd(mjm, info, rng, extent=rng.choice([0.3, 0.5, 0.8]), z0=z0))
      else:
        pairs = [(2 * k, 2 * k + 1) for k in range(n // 2)]
        if opts["plane"] and n % 2:
          pairs.append(("plane", n - 1))
        qs.append(_col.place_pairs(mjm, info, pairs, rng, band_bias=True)[0])
    feats = [kind] + [f"static:{k}" for k in ("plane", "hfield") if opts[k]] + (["explicit_pairs"] if prs else []) + (["excludes"] if exs else [])
    return xml, mjm, qs, feats
  xml, mjm, feat, s = gen.make_model(case["seed"], TREE_PROFILE)
  if mjm is None:
    return None
  mjm.opt.disableflags |= int(mujoco.mjtDisableBit.mjDSBL_MULTICCD) | int(mujoco.mjtDisableBit.mjDSBL_NATIVECCD)
  if case["sleep"]:
    mjm.opt.enableflags |= int(mujoco.mjtEnableBit.mjENBL_SLEEP)
  qs = [np.asarray(gen.sample_state(mjm, rng, quat_scale=False, applied=False)["qpos"], dtype=np.float64) for _ in range(nworld)]
  return xml, mjm, qs, ["tree"] + [f for f in feat if f.startswith(("contact:", "disable:"))]


def canon(c):
  """Canonical order of one world's contacts + one byte string per field."""
  n = len(c["dist"])
  if n == 0:
    return {k: b"" for k in FIELDS}, np.zeros((0, 2), dtype=np.int64)
  rows = []
  for i in range(n):
    rows.append(tuple(int(x) for x in np.asarray(c["geom"][i]).reshape(-1)) + tuple(np.asarray(c[k][i], dtype=np.float32).tobytes() for k in ("dist", "pos", "frame")))
  order = sorted(range(n), key=lambda i: rows[i])
  out = {k: np.ascontiguousarray(np.asarray(c[k])[order]).tobytes() for k in FIELDS}
  return out, np.asarray(c["geom"]).reshape(-1, 2)[order]


def physical_diff(mjm, a, b, xpos):
  """Compares two contact sets of one world as physical contacts (geom order of a pair ignored, normal flipped with it).
  Returns (None, swapped_pairs) if equivalent, else (kind, text)."""

  def norm(c):
    out = {}
    geom = np.asarray(c["geom"]).reshape(-1, 2)
    sw = []
    for i in range(geom.shape[0]):
      g1, g2 = int(geom[i, 0]), int(geom[i, 1])
      n = np.asarray(c["frame"][i], dtype=np.float64).reshape(-1)[:3]
      if g1 > g2 and mjm.geom_type[g1] == mjm.geom_type[g2]:
        g1, g2, n = g2, g1, -n
        sw.append((g1, g2))
      out.setdefault((g1, g2), []).append(i)
      c.setdefault("_n", {})[i] = n
    return out, sw

  ga, _ = norm(a)
  gb, sw = norm(b)
  missing, extra = sorted(set(ga) - set(gb)), sorted(set(gb) - set(ga))
  if missing or extra:
    if missing:
      kind = "missing-pair"
      expl = all(any({int(mjm.pair_geom1[i]), int(mjm.pair_geom2[i])} == set(p) for i in range(mjm.npair)) for p in missing)
      tn = {_col.GEOM_NAMES[int(mjm.geom_type[g])] for p in missing for g in p}
      if expl:
        # the known mechanism needs the pair's own margin+gap to exceed what the filters use (the geoms' margin+gap)
        def wider(p):
          i = [i for i in range(mjm.npair) if {int(mjm.pair_geom1[i]), int(mjm.pair_geom2[i])} == set(p)][0]
          return float(mjm.pair_margin[i] + mjm.pair_gap[i]) > float(mjm.geom_margin[list(p)].sum() + mjm.geom_gap[list(p)].sum())

        kind += ":explicit-pair-margin" if all(wider(p) for p in missing) else ":explicit-pair"
      else:
        kind += ":plane" if "plane" in tn else (":hfield" if "hfield" in tn else "")
    else:
      kind = "extra-pair"
    return kind, f"missing pairs {missing[:4]}, extra pairs {extra[:4]}"
  swset = set(sw)
  for key in ga:
    ia, ib = ga[key], gb[key]
    if key in swset:
      # roles exchanged in the pair function: manifolds of flat-faced shapes are not unique, compare the deepest contact
      ai, bj = ia[int(np.argmin(np.asarray(a["dist"])[ia]))], ib[int(np.argmin(np.asarray(b["dist"])[ib]))]
      coincident = np.linalg.norm(xpos[key[0]] - xpos[key[1]]) < 1e-6  # normal undefined
      if float(a["dist"][ai]) < -0.5 * min(_col.minsize(mjm, key[0]), _col.minsize(mjm, key[1])):
        continue  # deep penetration: the convex solver's answer depends on which geom plays which role
      if abs(float(a["dist"][ai]) - float(b["dist"][bj])) > 1e-4 + 0.03 * abs(float(a["dist"][ai])) or (np.abs(a["_n"][ai] - b["_n"][bj]).max() > 2e-2 and abs(float(a["dist"][ai])) > 1e-5 and not coincident):
        return "swapped-pair-contact-differs", f"swapped pair {key}: deepest contact differs (dist {a['dist'][ai]} vs {b['dist'][bj]}, normal {a['_n'][ai]} vs {b['_n'][bj]})"
      continue
    if len(ia) != len(ib):
      return "contact-count", f"pair {key}: {len(ib)} contacts vs {len(ia)}"
    pa = np.asarray(a["pos"])[ia].astype(np.float64)
    pb = np.asarray(b["pos"])[ib].astype(np.float64)
    used = set()
    for i, ai in enumerate(ia):
      dd = np.linalg.norm(pb - pa[i], axis=1)
      for j in used:
        dd[j] = np.inf
      j = int(np.argmin(dd))
      used.add(j)
      bj = ib[j]
      # same geom order => same narrowphase computation => bit-equal; swapped order => the pair function ran with the
      # roles exchanged (convex solver tolerance applies)
      tp, td, tn_ = (3e-3, 1e-4, 2e-2) if key in swset else (0.0, 0.0, 0.0)
      if dd[j] > tp or abs(float(a["dist"][ai]) - float(b["dist"][bj])) > td or np.abs(a["_n"][ai] - b["_n"][bj]).max() > tn_:
        return "contact-geometry", f"pair {key}: pos/dist/normal differ (dpos {dd[j]:.3g}, dist {a['dist'][ai]} vs {b['dist'][bj]})"
      for f in ("includemargin", "friction", "solref", "solreffriction", "solimp"):
        x, y = np.asarray(a[f][ai], dtype=np.float64), np.asarray(b[f][bj], dtype=np.float64)
        if np.abs(x - y).max() > (2e-6 * max(1.0, np.abs(x).max()) if key in swset else 0.0):
          return "contact-params:" + f, f"pair {key}: {f} {x} vs {y}"
      if int(a["dim"][ai]) != int(b["dim"][bj]) or int(a["type"][ai]) != int(b["type"][bj]):
        return "contact-params:dim", f"pair {key}: dim/type differ"
  return None, sorted(set(sw))


def run_case(case):
  import mujoco_warp as mjw
  import warp as wp
  from mujoco_warp._src.types import BroadphaseType

  rec = core.Rec(case)
  rng = np.random.default_rng(case["seed"])
  made = make(case, rng)
  if made is None:
    rec.rejected = "mujoco compile"
    return rec.result()
  xml, mjm, qs, feats = made
  _col.pin_primitive_dispatch(mjm)
  try:
    m = mw.put_model(mjm)
  except (NotImplementedError, ValueError) as e:
    rec.rejected = f"put_model: {e}"[:200]
    rec.count("rejected_put_model")
    return rec.result()
  nworld = len(qs)
  npair = mjm.ngeom * (mjm.ngeom - 1) // 2
  d = mjw.make_data(mjm, nworld=nworld, nconmax=max(64, 2 * npair + 8 * mjm.ngeom), njmax=8)
  wp.copy(d.qpos, wp.array(np.stack([np.asarray(q, dtype=np.float32) for q in qs]), dtype=float))
  mjw.kinematics(m, d)
  nasleep = 0
  if case["sleep"] and rng.random() < 0.7:
    awake = mw.npy(d.body_awake).copy()
    for w in range(nworld):
      for r in range(1, mjm.nbody):
        if mjm.body_parentid[r] == 0 and mjm.body_mocapid[r] < 0 and mjm.body_dofnum[r] > 0 and rng.random() < 0.4:
          # whole kinematic tree rooted at r
          for b in range(r, mjm.nbody):
            if mjm.body_rootid[b] == r:
              awake[w, b] = 1  # SleepState.ASLEEP
              nasleep += 1
    wp.copy(d.body_awake, wp.array(awake, dtype=int))

  def run(bp, mask):
    m.opt.broadphase = BroadphaseType(bp)
    m.opt.broadphase_filter = int(mask)
    d.overflow.zero_()
    mjw.collision(m, d)
    nacon, ncoll = int(mw.npy(d.nacon)[0]), int(mw.npy(d.ncollision)[0])
    ok = not np.any(mw.npy(d.overflow)) and nacon <= d.naconmax and ncoll <= d.naconmax
    return _col.world_contacts(d), ncoll, ok

  xpos = np.array(mw.npy(d.geom_xpos), dtype=np.float64)
  base, ncoll0, ok = run(0, 0)
  if not ok:
    rec.inconcl("capacity overflow in the baseline run")
    return rec.result()
  base_c = [canon(c) for c in base]
  ncon = sum(len(c["dist"]) for c in base)
  min_ncoll = ncoll0
  bad = {}  # (bp, mask) -> (world, kind, detail)
  swapped = {}
  for bp in (0, 1, 2):
    for mask in range(16):
      if bp == 0 and mask == 0:
        continue
      got, ncoll, ok = run(bp, mask)
      if not ok:
        rec.inconcl(f"capacity overflow under {BP[bp]} mask {mask}")
        continue
      min_ncoll = min(min_ncoll, ncoll)
      rec.check()
      rec.cover(f"configs:{BP[bp]}", 1)
      for w in range(nworld):
        cw, gw = canon(got[w])
        if all(cw[k] == base_c[w][0][k] for k in FIELDS):
          rec.count("world_configs_bit_equal")
          continue
        kind, detail = physical_diff(mjm, base[w], got[w], xpos[w])
        if kind is None:
          rec.count("world_configs_equal_up_to_geom_order")
          swapped.setdefault((bp, mask), (w, detail))
        else:
          bad.setdefault((bp, mask), (w, kind, detail))
  def culprit_of(table):
    """A broadphase type alone, one filter bit alone, or only a combination; plus a representative configuration."""
    culprit = None
    if (1, 0) in table and (2, 0) in table:
      culprit = "SAP"
    else:
      for bp in (1, 2):
        if (bp, 0) in table:
          culprit = BP[bp]
    if culprit is None:
      for bit in (1, 2, 4, 8):
        if any((bp, bit) in table for bp in (0, 1, 2)):
          culprit = "filter-" + BITS[bit]
          break
    if culprit is None:
      culprit = "filter-combination"
    key = sorted(table)[0]
    for k in sorted(table):
      if (culprit in (BP.get(k[0]), "SAP") and k[0] > 0 and k[1] == 0) or (culprit.startswith("filter-") and BITS.get(k[1]) == culprit[7:]):
        key = k
        break
    return culprit, key

  if swapped:
    culprit, key = culprit_of(swapped)
    if all(k[0] > 0 for k in swapped):
      culprit = "SAP"  # only the sweep-and-prune broadphases emit pairs in projection order
    w, detail = swapped[key]
    rec.viol(
      f"{culprit}:geom-order-swapped",
      f"world {w} under broadphase {BP[key[0]]} filter mask {key[1]}: same physical contacts as NXN/no-filter but contact.geom order (and normal sign) reversed for "
      f"same-type pairs {detail[:6]}; {len(swapped)} of 47 configurations affected",
    )
  kinds = {}
  for k, v in bad.items():
    kinds.setdefault(v[1], {})[k] = v
  for kind, table in sorted(kinds.items()):
    culprit, key = culprit_of(table)
    if kind == "swapped-pair-contact-differs" and all(k[0] > 0 for k in table):
      culprit = "SAP"
    sig = f"{culprit}:{kind}"
    if kind == "missing-pair:explicit-pair-margin" and culprit.startswith("filter-"):
      sig = "filter:missing-pair:explicit-pair-margin"  # all four bounding-volume filters use the geoms' margin+gap
    w, _, detail = table[key]
    rec.viol(
      sig,
      f"contacts of world {w} under broadphase {BP[key[0]]} filter mask {key[1]} differ from NXN/no-filter: {detail}; {len(table)} of 47 configurations differ: {sorted(table)[:8]}",
      configs=[list(k) for k in sorted(table)],
    )
  for f in feats:
    rec.cover("features", f)
  rec.cover(f"nworld:{nworld}", 1)
  rec.cover("baseline_contacts", ncon)
  rec.cover("bodies_marked_asleep", nasleep)
  if case["sleep"]:
    rec.cover("sleep_cases", 1)
  rec.cover("pairs_rejected_by_filters", ncoll0 - min_ncoll)
  if ncon > 0 and min_ncoll < ncoll0:
    rec.nontrivial(xml, *qs)
  rec.sample = {"kind": case["kind"], "nworld": nworld, "ngeom": int(mjm.ngeom), "npair": int(mjm.npair), "sleep": case["sleep"], "bodies_asleep": nasleep, "baseline_contacts": ncon, "broadphase_pairs_unfiltered": ncoll0, "broadphase_pairs_min": min_ncoll}
  return rec.result()


def requirements(agg, tier):
  unmet = []
  cov = agg["cover"]
  for bp in BP.values():
    if cov.get(f"configs:{bp}", 0) < 100:
      unmet.append(f"fewer than 100 configurations observed under {bp}")
  for nw in (1, 2, 5, 16):
    if not cov.get(f"nworld:{nw}"):
      unmet.append(f"nworld={nw} never run")
  feats = set(cov.get("features", []))
  for f in ("crowd", "pairs", "tree", "static:plane", "static:hfield", "explicit_pairs", "excludes"):
    if f not in feats:
      unmet.append(f"feature never generated: {f}")
  if cov.get("bodies_marked_asleep", 0) < 5:
    unmet.append("fewer than 5 sleeping bodies across sleep cases")
  if cov.get("baseline_contacts", 0) < 200:
    unmet.append("fewer than 200 baseline contacts")
  if cov.get("pairs_rejected_by_filters", 0) < 50:
    unmet.append("filters rejected fewer than 50 candidate pairs: they never decided anything")
  if agg["distinct"] < 20:
    unmet.append("fewer than 20 distinct non-trivial cases")
  return unmet
