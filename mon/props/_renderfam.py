"""C35 input families that stress the scene-BVH bounds: geoms whose size semantics are special or extreme, cameras in
special places, per-world Model variants.  Everything is a post-edit of the XML produced by _rayscene.make_scene (that
generator's random stream is untouched); all random draws here come from the rng handed in by C35.

Families (stratified by the case index so that every run of the quick tier exercises every family):
  plane     the scene's plane gets a size class: x-inf (0,b) / y-inf (a,0) / x-neg (-u,b) / y-neg (a,-u) / both-neg /
            small / aniso (long finite strip) / large
  plane2    an extra plane (wall / strip) in the world facing the scene, or on the mocap body (moves per world)
  shape     1-3 primitives become needles / discs / plates / beams / tiny / big
  far       big primitives 15-70 length units away from the scene
  mesh      an elongated mesh asset (vertex bounds far from centred on the geom origin)
  hfield    the hfield asset becomes long / tall / flat / thick-based
  camera    one extra world camera: far (narrow fovy) / low (grazing over the plane to the horizon) / inside the scene /
            axis (exactly axis-aligned optical axis, odd resolution => rays with exactly-zero components) / aabb (inside
            the bounding box of a diagonal beam but outside the beam)
  offset    the whole scene is translated far from the origin (<frame pos=...>)
  variant   per-world Model variants: geom sizes (incl. the plane's size class) and mesh ids differ between worlds
"""

import re

import numpy as np

from mon.props import _rayscene as rs

PLANE_MODES = ("asis", "x-inf", "y-inf", "x-neg", "small", "y-neg", "aniso", "both-neg", "large", "asis", "x-inf", "y-inf")
PLANE2_MODES = ("x-inf", "y-inf", "x-neg", "y-neg", "inf", "finite", "aniso", "small")
CAM_MODES = ("none", "far", "low", "inside", "axis", "aabb", "low")
HFIELD_MODES = ("long-x", "long-y", "tall", "flat", "thick-base")

_f = rs._f


def set_attr(xml, tag, name, **attrs):
  """Replace / add / remove (value None) attributes of the element <tag name="name" ...>."""
  pat = re.compile(r'<%s name="%s"[^>]*?/?>' % (tag, re.escape(name)))
  m = pat.search(xml)
  if m is None:
    raise KeyError(f"{tag} {name} not in xml")
  el = m.group(0)
  close = "/>" if el.endswith("/>") else ">"
  body = el[: -len(close)]
  for k, v in attrs.items():
    has = re.search(r' %s="[^"]*"' % k, body)
    if v is None:
      body = re.sub(r' %s="[^"]*"' % k, "", body)
    elif has:
      body = re.sub(r' %s="[^"]*"' % k, ' %s="%s"' % (k, v), body)
    else:
      body += ' %s="%s"' % (k, v)
  return xml[: m.start()] + body + close + xml[m.end() :]


def plane_size(mode, rng):
  a, b = rng.uniform(0.3, 2.2), rng.uniform(0.3, 2.2)
  u = rng.uniform(0.5, 3.0)
  if mode == "x-inf":
    s = [0, b]
  elif mode == "y-inf":
    s = [a, 0]
  elif mode == "x-neg":
    s = [-u, b]
  elif mode == "y-neg":
    s = [a, -u]
  elif mode == "both-neg":
    s = [-u, -rng.uniform(0.5, 3.0)]
  elif mode == "inf":
    s = [0, 0]
  elif mode == "small":
    s = [rng.uniform(0.15, 0.5), rng.uniform(0.15, 0.5)]
  elif mode == "aniso":
    s = [rng.uniform(0.1, 0.3), rng.uniform(2.0, 4.0)]
    if rng.random() < 0.5:
      s = s[::-1]
  elif mode == "large":
    s = [rng.uniform(15, 40), rng.uniform(15, 40)]
  else:  # finite
    s = [rng.uniform(0.8, 2.5), rng.uniform(0.8, 2.5)]
  return _f(s + [0.1])


def _perm(rng, v):
  v = list(v)
  rng.shuffle(v)
  return v


def extreme_size(t, rng):
  """(size string, class) of an extreme-aspect / extreme-scale primitive."""
  thin = rng.uniform(0.01, 0.03)
  r = rng.random()
  if t == "sphere":
    return (_f(rng.uniform(0.012, 0.03)), "tiny") if r < 0.6 else (_f(rng.uniform(0.9, 1.6)), "big")
  if t == "capsule":
    return (_f([thin, rng.uniform(0.8, 2.5)]), "needle") if r < 0.6 else (_f([rng.uniform(0.3, 0.6), rng.uniform(0.001, 0.01)]), "flat")
  if t == "cylinder":
    return (_f([thin, rng.uniform(0.8, 2.5)]), "needle") if r < 0.5 else (_f([rng.uniform(0.5, 1.4), rng.uniform(0.002, 0.01)]), "disc")
  if t == "box":
    if r < 0.5:
      return _f(_perm(rng, [rng.uniform(0.002, 0.01), rng.uniform(0.4, 1.4), rng.uniform(0.4, 1.4)])), "plate"
    return _f(_perm(rng, [rng.uniform(0.02, 0.05), rng.uniform(0.02, 0.05), rng.uniform(1.0, 2.8)])), "beam"
  if t == "ellipsoid":
    if r < 0.5:
      return _f(_perm(rng, [rng.uniform(0.004, 0.015), rng.uniform(0.4, 1.2), rng.uniform(0.4, 1.2)])), "disc"
    return _f(_perm(rng, [thin, thin * rng.uniform(1, 2), rng.uniform(1.0, 2.5)])), "needle"
  raise ValueError(t)


def normal_size(t, rng):
  s = rng.uniform(0.08, 0.35, size=3)
  if t == "sphere":
    return _f(s[0])
  if t in ("capsule", "cylinder"):
    return _f([s[0] * 0.6, s[1]])
  return _f(s)


def _geom_line(name, t, size, pos, group, rng, orient=None, extra=""):
  o = orient if orient is not None else f'quat="{_f(rs._rquat(rng))}"'
  sz = f'size="{size}" ' if size is not None else ""
  col = _f(list(rng.uniform(0.1, 1, size=3)) + [1.0])
  return f'<geom name="{name}" type="{t}" {sz}pos="{_f(pos)}" {o} group="{group}" rgba="{col}" contype="0" conaffinity="0"{extra}/>'


def _group(rng):
  return 0 if rng.random() < 0.75 else int(rng.integers(6))


def _look(cpos, target, roll):
  fwd = target - cpos
  fwd /= np.linalg.norm(fwd)
  up0 = np.array([0, 0, 1.0]) if abs(fwd[2]) < 0.95 else np.array([1.0, 0, 0])
  right = np.cross(fwd, up0)
  right /= np.linalg.norm(right)
  up = np.cross(right, fwd)
  r2 = np.cos(roll) * right + np.sin(roll) * up
  u2 = -np.sin(roll) * right + np.cos(roll) * up
  return _f(np.concatenate([r2, u2]))


def specialise(xml, info, idx, ncam, rng):
  """Returns (xml, fam, special, cam, offset): fam = {family: mode}, special = {geom name: tag}, cam = None or
  (name, kind, (W, H), mode) of the extra world camera named cam<ncam>, offset = None or the scene translation."""
  fam, special = {}, {}
  world_add, mocap_add, asset_add = [], [], []
  C0 = np.array([0, 0, 0.5])

  # ---- plane size class
  mode = PLANE_MODES[idx % len(PLANE_MODES)]
  fam["plane"] = mode
  if mode != "asis":
    for name, t, _ in info["geoms"]:
      if t == "plane":
        xml = set_attr(xml, "geom", name, size=plane_size(mode, rng))
        special[name] = "plane:" + mode

  # ---- second plane: a wall / strip facing the scene, or riding on the mocap body
  if idx % 2 == 1:
    mode2 = PLANE2_MODES[(idx // 2) % len(PLANE2_MODES)]
    on_mocap = rng.random() < 0.4
    if on_mocap:
      line = _geom_line("xp2", "plane", plane_size(mode2, rng), rng.uniform(-0.3, 0.3, size=3), _group(rng), rng)
      mocap_add.append(line)
    else:
      phi = rng.uniform(0, 2 * np.pi)
      u = np.array([np.cos(phi), np.sin(phi), 0.0])
      p = C0 + u * rng.uniform(1.2, 4.0) + np.array([0, 0, rng.uniform(-0.3, 0.6)])
      n = -u + rng.normal(size=3) * 0.35
      n /= np.linalg.norm(n)
      x = np.cross(n, rng.normal(size=3))
      x /= np.linalg.norm(x)
      y = np.cross(n, x)
      line = _geom_line("xp2", "plane", plane_size(mode2, rng), p, _group(rng), rng, orient=f'xyaxes="{_f(np.concatenate([x, y]))}"')
      world_add.append(line)
    fam["plane2"] = mode2 + (":mocap" if on_mocap else ":world")
    special["xp2"] = "plane2:" + mode2

  # ---- extreme primitives
  if idx % 4 != 3:
    prims = [(n_, t, pl) for n_, t, pl in info["geoms"] if t in rs.PRIMS]
    k = min(len(prims), int(rng.integers(1, 4)))
    modes = []
    for j in rng.choice(len(prims), size=k, replace=False):
      n_, t, pl = prims[int(j)]
      sz, c = extreme_size(t, rng)
      xml = set_attr(xml, "geom", n_, size=sz)
      special[n_] = f"shape:{c}"
      modes.append(f"{t}-{c}")
    fam["shape"] = ",".join(sorted(modes))

  # ---- far big primitives
  if idx % 3 == 0:
    modes = []
    for j in range(int(rng.integers(1, 3))):
      t = rs.PRIMS[int(rng.integers(len(rs.PRIMS)))]
      dv = rng.normal(size=3)
      dv[2] = abs(dv[2]) * 0.5
      dv /= np.linalg.norm(dv)
      p = C0 + dv * rng.uniform(15, 70)
      s = rng.uniform(2.0, 9.0, size=3)
      sz = {"sphere": _f(s[0]), "capsule": _f(s[:2]), "cylinder": _f(s[:2]), "box": _f(s), "ellipsoid": _f(s)}[t]
      world_add.append(_geom_line(f"xfar{j}", t, sz, p, _group(rng), rng))
      special[f"xfar{j}"] = "far"
      modes.append(t)
    fam["far"] = ",".join(sorted(modes))

  # ---- elongated mesh
  if idx % 5 == 1:
    base = ("tetra", "wedge", "cubeish")[int(rng.integers(3))]
    sc = _perm(rng, [rng.uniform(0.25, 0.5), rng.uniform(0.25, 0.5), rng.uniform(5.0, 12.0)])
    asset_add.append(f'<mesh name="xlong" vertex="{rs.INLINE_MESHES[base]}" scale="{_f(sc)}"/>')
    on_mocap = rng.random() < 0.3
    p = rng.uniform(-0.4, 0.4, size=3) if on_mocap else np.array([rng.uniform(-1.2, 1.2), rng.uniform(-1.2, 1.2), rng.uniform(0.3, 1.4)])
    line = _geom_line("xmesh", "mesh", None, p, _group(rng), rng, extra=' mesh="xlong"')
    (mocap_add if on_mocap else world_add).append(line)
    special["xmesh"] = "mesh:elongated"
    fam["mesh"] = base

  # ---- hfield asset size class
  if idx % 5 == 3:
    hmode = HFIELD_MODES[(idx // 5) % len(HFIELD_MODES)]
    sx, sy, sz, sb = rng.uniform(0.4, 1.0), rng.uniform(0.4, 1.0), rng.uniform(0.1, 0.4), rng.uniform(0.05, 0.2)
    if hmode == "long-x":
      sx, sy = rng.uniform(2.0, 3.5), rng.uniform(0.15, 0.3)
    elif hmode == "long-y":
      sx, sy = rng.uniform(0.15, 0.3), rng.uniform(2.0, 3.5)
    elif hmode == "tall":
      sz = rng.uniform(1.0, 2.5)
    elif hmode == "flat":
      sz = rng.uniform(0.005, 0.02)
    else:
      sb = rng.uniform(1.0, 2.0)
    xml = set_attr(xml, "hfield", "hf", size=_f([sx, sy, sz, sb]))
    for name, t, _ in info["geoms"]:
      if t == "hfield":
        special[name] = "hfield:" + hmode
    fam["hfield"] = hmode

  # ---- extra world camera
  cam = None
  cmode = CAM_MODES[idx % len(CAM_MODES)]
  if cmode != "none":
    name = f"cam{ncam}"
    res = [(32, 24), (48, 32), (24, 24)][int(rng.integers(3))]
    fovy = rng.uniform(45, 100)
    roll = rng.uniform(-0.4, 0.4)
    xy = None
    if cmode == "far":
      dv = rng.normal(size=3)
      dv[2] = abs(dv[2]) * 0.7 + 0.1
      dv /= np.linalg.norm(dv)
      rad = rng.uniform(25, 80)
      cpos = C0 + dv * rad
      target = C0 + rng.uniform(-0.3, 0.3, size=3)
      fovy = float(np.degrees(2 * np.arctan(rng.uniform(1.6, 2.6) / rad)))
      res = (48, 32)
    elif cmode == "low":
      phi = rng.uniform(0, 2 * np.pi)
      cpos = np.array([np.cos(phi), np.sin(phi), 0.0]) * rng.uniform(2.0, 4.5) + np.array([0, 0, rng.uniform(0.12, 0.45)])
      target = np.array([rng.uniform(-0.4, 0.4), rng.uniform(-0.4, 0.4), rng.uniform(0.0, 0.5)])
      res = (48, 32)
    elif cmode == "inside":
      cpos = np.array([rng.uniform(-0.8, 0.8), rng.uniform(-0.8, 0.8), rng.uniform(0.3, 1.2)])
      phi = rng.uniform(0, 2 * np.pi)
      target = cpos + np.array([np.cos(phi), np.sin(phi), rng.uniform(-0.6, 0.2)])
    elif cmode == "axis":
      res = (33, 17)
      roll = 0.0
      which = int(rng.integers(3))
      if which == 0:  # straight down
        cpos = np.array([0.125, -0.25, rng.choice([4.0, 5.5, 7.0])])
        xy = "1 0 0 0 1 0"
      elif which == 1:  # along -x
        cpos = np.array([rng.choice([4.0, 5.0]), 0.25, 0.5])
        xy = "0 1 0 0 0 1"
      else:  # along +y
        cpos = np.array([-0.25, -rng.choice([4.0, 5.0]), 0.75])
        xy = "1 0 0 0 0 1"
      fovy = float(rng.choice([40.0, 50.0, 60.0]))
      target = None
    else:  # aabb: inside the bounding box of a diagonal beam, outside the beam
      L = rng.uniform(1.2, 2.0)
      cb = np.array([rng.uniform(-0.5, 0.5), rng.uniform(-0.5, 0.5), rng.uniform(0.9, 1.5)])
      sgn = rng.choice([-1.0, 1.0], size=2)
      e = np.array([sgn[0], sgn[1], rng.uniform(-0.3, 0.3)])
      e /= np.linalg.norm(e)
      world_add.append(_geom_line("xbeam", "box", _f([0.04, 0.05, L]), cb, 0, rng, orient=f'zaxis="{_f(e)}"'))
      special["xbeam"] = "beam"
      # a corner region of the beam's AABB: mirror the beam direction in x
      q = np.array([-e[0], e[1], 0.0]) * L * rng.uniform(0.55, 0.8)
      cpos = cb + q
      target = cb + e * L * rng.uniform(-0.5, 0.5) if rng.random() < 0.7 else cpos + q
    if xy is None:
      xy = _look(cpos, target, roll)
    world_add.append(f'<camera name="{name}" pos="{_f(cpos)}" xyaxes="{xy}" fovy="{_f(fovy)}"/>')
    cam = (name, "fovy", res, cmode)
    fam["camera"] = cmode

  # ---- insert
  if asset_add:
    xml = xml.replace("</asset>", "\n    ".join(asset_add) + "\n  </asset>", 1)
  if world_add:
    xml = xml.replace("<worldbody>", "<worldbody>\n      " + "\n      ".join(world_add), 1)
  if mocap_add:
    xml = re.sub(r'(<body name="mocap"[^>]*>)', lambda m_: m_.group(1) + "\n      " + "\n      ".join(mocap_add), xml, count=1)

  # ---- whole scene far from the origin
  offset = None
  if idx % 7 == 5:
    offset = np.array([rng.choice([-1, 1]) * rng.uniform(20, 120), rng.choice([-1, 1]) * rng.uniform(20, 120), rng.choice([-1, 1]) * rng.uniform(10, 60)])
    offset = np.round(offset * 8) / 8  # float32-exact
    xml = xml.replace("<worldbody>", f'<worldbody>\n    <frame pos="{_f(offset)}">', 1).replace("</worldbody>", "</frame>\n  </worldbody>", 1)
    fam["offset"] = "far-from-origin"
  return xml, fam, special, cam, offset


def variant(xml, info, meshes, rng):
  """Another world's Model: 2-5 geoms get another size (primitives: normal or extreme; plane: another size class) or
  another mesh.  Returns (xml, list of changed geom names)."""
  # (a mesh swap changes the compiled geom_pos / geom_quat; MJWarp computes the frames of static geoms once in make_data,
  # so only mesh geoms on moving / mocap bodies are swapped)
  cand = [(n_, t) for n_, t, pl in info["geoms"] if t in rs.PRIMS or t == "plane" or (t == "mesh" and pl in ("free", "hinge", "mocap"))]
  planes = [c for c in cand if c[1] == "plane"]
  k = min(len(cand), int(rng.integers(2, 6)))
  pick = [cand[int(j)] for j in rng.choice(len(cand), size=k, replace=False)]
  for p in planes:  # the plane always changes class
    if p not in pick:
      pick.append(p)
  changed = []
  for n_, t in pick:
    if t == "plane":
      xml = set_attr(xml, "geom", n_, size=plane_size(("x-inf", "y-inf", "x-neg", "y-neg", "inf", "finite", "small", "aniso")[int(rng.integers(8))], rng))
    elif t == "mesh":
      xml = set_attr(xml, "geom", n_, mesh=meshes[int(rng.integers(len(meshes)))])
    else:
      xml = set_attr(xml, "geom", n_, size=(extreme_size(t, rng)[0] if rng.random() < 0.4 else normal_size(t, rng)))
    changed.append(n_)
  return xml, changed
