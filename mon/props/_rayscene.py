"""Shared by C34 / C35: seeded scenes containing every geom type, ray generators and the float64 reference.

Nothing here draws from mon.gen's random stream.  The reference is MuJoCo C (float64): a per-geom table built with
mju_rayGeom / mj_rayMesh / mj_rayHfield, plus mj_ray / mj_multiRay for the end-to-end answer.
"""

import os

import mujoco
import numpy as np

from mon import core

GT = mujoco.mjtGeom
TYPE_NAMES = {
  int(GT.mjGEOM_PLANE): "plane",
  int(GT.mjGEOM_HFIELD): "hfield",
  int(GT.mjGEOM_SPHERE): "sphere",
  int(GT.mjGEOM_CAPSULE): "capsule",
  int(GT.mjGEOM_ELLIPSOID): "ellipsoid",
  int(GT.mjGEOM_CYLINDER): "cylinder",
  int(GT.mjGEOM_BOX): "box",
  int(GT.mjGEOM_MESH): "mesh",
}
ALL_TYPES = ("plane", "hfield", "sphere", "capsule", "ellipsoid", "cylinder", "box", "mesh")
PRIMS = ("sphere", "capsule", "ellipsoid", "cylinder", "box")


def _f(x):
  return " ".join(f"{float(v):.7g}" for v in np.atleast_1d(x))


def _rquat(rng):
  q = rng.normal(size=4)
  return q / np.linalg.norm(q)


def _lmesh():
  """Non-convex L-shaped prism with explicit, consistently outward-oriented faces."""
  poly = np.array([(0, 0), (2, 0), (2, 1), (1, 1), (1, 2), (0, 2)], dtype=float) * 0.15 - 0.12
  h = 0.08
  verts = [(x, y, -h) for x, y in poly] + [(x, y, h) for x, y in poly]
  faces = []
  fan = [(0, 1, 2), (0, 2, 3), (0, 3, 4), (0, 4, 5)]
  for a, b, c in fan:
    faces.append((6 + a, 6 + b, 6 + c))  # top, +z
    faces.append((a, c, b))  # bottom, -z
  for i in range(6):
    j = (i + 1) % 6
    faces.append((i, j, 6 + j))
    faces.append((i, 6 + j, 6 + i))
  return _f(np.array(verts).ravel()), " ".join(str(int(v)) for f in faces for v in f)


INLINE_MESHES = {
  "tetra": "0 0 0  0.3 0 0  0 0.3 0  0 0 0.3",
  "wedge": "-0.15 -0.1 -0.1  0.15 -0.1 -0.1  0.15 0.1 -0.1  -0.15 0.1 -0.1  0 -0.1 0.14  0 0.1 0.14",
  "octa": "0.2 0 0  -0.2 0 0  0 0.15 0  0 -0.15 0  0 0 0.12  0 0 -0.12",
  "cubeish": "-0.1 -0.1 -0.1  0.1 -0.1 -0.1  0.1 0.1 -0.1  -0.1 0.1 -0.1  -0.08 -0.08 0.1  0.08 -0.08 0.1  0.08 0.08 0.1  -0.08 0.08 0.1",
}


def _geom(rng, name, t, pos=None, aligned=False, group=None, opts=None):
  """One <geom .../> line; returns (xml, type)."""
  opts = opts or {}
  a = {"name": name, "type": t}
  s = rng.uniform(0.08, 0.35, size=3)
  if t == "sphere":
    a["size"] = _f(s[0])
  elif t in ("capsule", "cylinder"):
    a["size"] = _f([s[0] * 0.6, s[1]])
  elif t in ("ellipsoid", "box"):
    a["size"] = _f(s)
  elif t == "mesh":
    a["mesh"] = opts["meshes"][rng.integers(len(opts["meshes"]))]
  elif t == "hfield":
    a["hfield"] = "hf"
  elif t == "plane":
    fin = rng.random() < 0.6
    a["size"] = _f([rng.uniform(0.8, 2.5), rng.uniform(0.8, 2.5), 0.1] if fin else [0, 0, 0.1])
  if pos is None:
    pos = np.array([rng.uniform(-1.4, 1.4), rng.uniform(-1.4, 1.4), rng.uniform(0.15, 1.4)])
  a["pos"] = _f(pos)
  if not aligned and t != "hfield":
    a["quat"] = _f(_rquat(rng))
  elif t == "hfield" and rng.random() < 0.5:
    a["quat"] = _f(_rquat(rng) * np.array([1, 0.15, 0.15, 1]))
  g = int(rng.integers(6)) if group is None else group
  a["group"] = str(g)
  r = rng.random()
  pinv = opts.get("p_invisible", 0.0)
  if r < pinv:
    a["rgba"] = "0.5 0.5 0.5 0"
  elif r < 1.6 * pinv:
    a["material"] = "ghost"
  elif r < 1.6 * pinv + 0.1:
    a["material"] = "solid"
  else:
    a["rgba"] = _f(list(rng.uniform(0.1, 1, size=3)) + [rng.choice([1.0, 0.4])])
  a["contype"] = "0"
  a["conaffinity"] = "0"
  return "<geom " + " ".join(f'{k}="{v}"' for k, v in a.items()) + "/>", t


def make_scene(seed, ncam=0, p_invisible=0.1, all_groups_have_types=False, cam_opts=None, max_extra=6):
  """Returns (xml, info).  Every scene has at least one geom of every type."""
  rng = np.random.default_rng(seed)
  meshdir = os.path.join(core.TEST_DATA, "meshes")
  meshes = ["tetra", "wedge", "octa", "cubeish", "lprism", "stl_tetra", "stl_dodeca"]
  use = list(rng.choice(meshes, size=3, replace=False))
  opts = {"meshes": use, "p_invisible": p_invisible}
  assets = []
  for mn in use:
    if mn in INLINE_MESHES:
      sc = rng.uniform(0.7, 1.6, size=3)
      assets.append(f'<mesh name="{mn}" vertex="{INLINE_MESHES[mn]}" scale="{_f(sc)}"/>')
    elif mn == "lprism":
      v, f = _lmesh()
      assets.append(f'<mesh name="lprism" vertex="{v}" face="{f}" scale="{_f(rng.uniform(0.8, 1.5, size=3))}"/>')
    elif mn == "stl_tetra":
      assets.append(f'<mesh name="stl_tetra" file="{meshdir}/tetrahedron.stl" scale="{_f(rng.uniform(0.2, 0.4, size=3))}"/>')
    else:
      assets.append(f'<mesh name="stl_dodeca" file="{meshdir}/dodecahedron.stl" scale="{_f(rng.uniform(0.02, 0.04, size=3))}"/>')
  nr, nc = int(rng.integers(2, 7)), int(rng.integers(2, 7))
  el = rng.uniform(0, 1, size=nr * nc)
  if rng.random() < 0.3:  # flat patches (the BVH hfield mesher merges coplanar cells)
    el = np.round(el * 2) / 2
  hsz = [rng.uniform(0.4, 1.0), rng.uniform(0.4, 1.0), rng.uniform(0.1, 0.4), rng.uniform(0.05, 0.2)]
  assets.append(f'<hfield name="hf" nrow="{nr}" ncol="{nc}" size="{_f(hsz)}" elevation="{_f(el)}"/>')
  assets.append('<material name="ghost" rgba="0.3 0.3 0.3 0"/>')
  assets.append('<material name="solid" rgba="0.3 0.8 0.3 1"/>')

  # which geom goes where: world (static), welded child (static), free body, hinge child, mocap body
  places = {"world": [], "welded": [], "free": [], "hinge": [], "mocap": []}
  k = 0
  types_left = list(ALL_TYPES)
  rng.shuffle(types_left)
  extra = int(rng.integers(2, max_extra + 1))
  seq = types_left + [PRIMS[rng.integers(len(PRIMS))] if rng.random() < 0.8 else "mesh" for _ in range(extra)]
  geoms = []
  for t in seq:
    if t in ("plane", "hfield"):
      place = "world"
    else:
      place = ("world", "welded", "free", "hinge", "mocap")[rng.choice(5, p=[0.2, 0.1, 0.3, 0.25, 0.15])]
    name = f"g{k}"
    aligned = rng.random() < 0.3
    pos = None
    if t == "plane":
      pos = np.array([rng.uniform(-0.3, 0.3), rng.uniform(-0.3, 0.3), rng.uniform(-0.2, 0.05)])
      aligned = rng.random() < 0.7
    elif t == "hfield":
      pos = np.array([rng.uniform(-1.2, 1.2), rng.uniform(-1.2, 1.2), rng.uniform(0.0, 0.4)])
    elif place != "world":
      pos = rng.uniform(-0.5, 0.5, size=3)  # body-local
    group = 0 if (all_groups_have_types and k < len(ALL_TYPES)) else None
    x, _ = _geom(rng, name, t, pos=pos, aligned=aligned, group=group, opts=opts)
    places[place].append(x)
    geoms.append((name, t, place))
    k += 1

  def body_pos():
    return _f([rng.uniform(-1.0, 1.0), rng.uniform(-1.0, 1.0), rng.uniform(0.4, 1.3)])

  cams = []
  cam_xml = {"world": [], "mocap": []}
  cam_opts = cam_opts or {}
  for c in range(ncam):
    place = ("world", "mocap")[rng.choice(2, p=[0.6, 0.4])]
    kind = cam_opts.get("kinds", ("fovy",))[c % len(cam_opts.get("kinds", ("fovy",)))]
    a = {"name": f"cam{c}"}
    # look roughly at the scene centre from a shell of radius 2.5..4 (outside all geoms with high probability)
    dirv = rng.normal(size=3)
    dirv[2] = abs(dirv[2]) * 0.7 + 0.15
    dirv /= np.linalg.norm(dirv)
    cpos = dirv * rng.uniform(2.6, 4.0) + np.array([0, 0, 0.5])
    target = np.array([rng.uniform(-0.5, 0.5), rng.uniform(-0.5, 0.5), rng.uniform(0.2, 0.8)])
    fwd = target - cpos
    fwd /= np.linalg.norm(fwd)
    up0 = np.array([0, 0, 1.0])
    right = np.cross(fwd, up0)
    right /= np.linalg.norm(right)
    up = np.cross(right, fwd)
    roll = rng.uniform(-0.4, 0.4)
    r2 = np.cos(roll) * right + np.sin(roll) * up
    u2 = -np.sin(roll) * right + np.cos(roll) * up
    if place == "world":
      a["pos"] = _f(cpos)
      a["xyaxes"] = _f(np.concatenate([r2, u2]))
    else:
      # on the mocap body (whose pose differs per world), always looking at the welded body
      a["pos"] = _f(rng.uniform(-0.1, 0.1, size=3))
      a["mode"] = "targetbody"
      a["target"] = "welded"
    if kind == "fovy":
      a["fovy"] = _f(rng.choice([20.0, 45.0, 60.0, 90.0, 110.0]) + rng.uniform(-5, 5))
    elif kind == "ortho":
      a["projection"] = "orthographic"
      a["fovy"] = _f(rng.uniform(1.5, 5.0))
    elif kind == "intrinsic":
      w, h = cam_opts["res_list"][c] if "res_list" in cam_opts else cam_opts.get("res", (32, 24))
      a["resolution"] = f"{w} {h}"
      sw = rng.uniform(0.002, 0.01)
      sh = sw * h / w
      if rng.random() < cam_opts.get("p_aspect_mismatch", 0.0):
        sh *= rng.choice([0.8, 1.3])
      a["sensorsize"] = _f([sw, sh])
      a["focal"] = _f([rng.uniform(0.6, 2.0) * sw, rng.uniform(0.6, 2.0) * sw])
      if rng.random() < 0.6:
        a["principal"] = _f([rng.uniform(-0.2, 0.2) * sw, rng.uniform(-0.2, 0.2) * sh])
    cam_xml[place].append("<camera " + " ".join(f'{k}="{v}"' for k, v in a.items()) + "/>")
    cams.append((f"cam{c}", kind, place))

  nl = "\n      "
  xml = f"""<mujoco model="rayscene{seed}">
  <compiler angle="radian"/>
  <statistic extent="2" center="0 0 0.5"/>
  <visual><map znear="0.01"/></visual>
  <asset>
    {(nl).join(assets)}
  </asset>
  <worldbody>
      {(nl).join(places["world"] + cam_xml["world"])}
    <body name="welded" pos="{body_pos()}" quat="{_f(_rquat(rng))}">
      <geom name="gw" type="sphere" size="0.05" group="{int(rng.integers(6))}" contype="0" conaffinity="0"/>
      {(nl).join(places["welded"])}
    </body>
    <body name="free" pos="{body_pos()}">
      <freejoint/>
      <geom name="gf" type="sphere" size="0.06" group="{int(rng.integers(6))}" contype="0" conaffinity="0"/>
      {(nl).join(places["free"])}
      <body name="hinge" pos="{_f(rng.uniform(-0.4, 0.4, size=3))}">
        <joint type="hinge" axis="{_f(_rquat(rng)[:3])}"/>
        <geom name="gh" type="capsule" size="0.04 0.1" group="{int(rng.integers(6))}" contype="0" conaffinity="0"/>
        {(nl).join(places["hinge"])}
      </body>
    </body>
    <body name="mocap" mocap="true" pos="{body_pos()}">
      <geom name="gm" type="box" size="0.05 0.07 0.03" group="{int(rng.integers(6))}" contype="0" conaffinity="0"/>
      {(nl).join(places["mocap"] + cam_xml["mocap"])}
    </body>
  </worldbody>
</mujoco>
"""
  return xml, {"geoms": geoms, "cams": cams, "meshes": use, "hfield": (nr, nc)}


def sample_pose(mjm, rng, cam_shell=False):
  """Per-world state (float32-representable): free joint pose, hinge angle, mocap pose."""
  qpos = np.array(mjm.qpos0, dtype=np.float64)
  for j in range(mjm.njnt):
    adr = mjm.jnt_qposadr[j]
    if mjm.jnt_type[j] == mujoco.mjtJoint.mjJNT_FREE:
      qpos[adr : adr + 3] = [rng.uniform(-1, 1), rng.uniform(-1, 1), rng.uniform(0.3, 1.4)]
      qpos[adr + 3 : adr + 7] = _rquat(rng)
    else:
      qpos[adr] = rng.uniform(-3, 3)
  mpos = np.zeros((mjm.nmocap, 3))
  mquat = np.zeros((mjm.nmocap, 4))
  for i in range(mjm.nmocap):
    mpos[i] = [rng.uniform(-1, 1), rng.uniform(-1, 1), rng.uniform(0.3, 1.4)]
    if cam_shell:  # the mocap body carries cameras: keep it on a shell around the scene
      dv = rng.normal(size=3)
      dv[2] = abs(dv[2]) * 0.7 + 0.15
      mpos[i] = dv / np.linalg.norm(dv) * rng.uniform(2.6, 4.0) + np.array([0, 0, 0.5])
    mquat[i] = _rquat(rng)
  z = np.zeros
  return {
    "qpos": qpos.astype(np.float32),
    "qvel": z(mjm.nv, np.float32),
    "act": z(mjm.na, np.float32),
    "ctrl": z(mjm.nu, np.float32),
    "mocap_pos": mpos.astype(np.float32),
    "mocap_quat": mquat.astype(np.float32),
    "qfrc_applied": z(mjm.nv, np.float32),
    "xfrc_applied": z((mjm.nbody, 6), np.float32),
    "eq_active": np.array(mjm.eq_active0, dtype=bool),
    "time": np.float32(0),
  }


# ------------------------------------------------------------------------------------ reference


class Ref:
  """Float64 per-geom ray table of one world (MjData after mj_kinematics)."""

  def __init__(self, mjm, mjd):
    self.mjm, self.mjd = mjm, mjd
    self.ng = mjm.ngeom
    self.gtype = np.array(mjm.geom_type)
    self.gsize = np.array(mjm.geom_size, dtype=np.float64)
    self.xpos = np.array(mjd.geom_xpos)
    self.xmat = np.array(mjd.geom_xmat)

  def geom(self, g, pnt, vec):
    """(dist, normal) of geom g alone (no filter)."""
    n = np.zeros(3)
    t = self.gtype[g]
    if t == GT.mjGEOM_MESH:
      d = mujoco.mj_rayMesh(self.mjm, self.mjd, g, pnt, vec, n)
    elif t == GT.mjGEOM_HFIELD:
      d = mujoco.mj_rayHfield(self.mjm, self.mjd, g, pnt, vec, n)
    else:
      d = mujoco.mju_rayGeom(self.xpos[g], self.xmat[g], self.gsize[g], pnt, vec, int(t), n)
    return d, n

  def table(self, pnt, vec, geoms=None):
    """dist (nray, ngeom) with -1 for a miss, normal (nray, ngeom, 3)."""
    nray = len(pnt)
    D = np.full((nray, self.ng), -1.0)
    N = np.zeros((nray, self.ng, 3))
    gl = range(self.ng) if geoms is None else geoms
    for r in range(nray):
      p, v = pnt[r], vec[r]
      for g in gl:
        D[r, g], N[r, g] = self.geom(g, p, v)
    return D, N


def eligible(mjm, geomgroup, flg_static, bodyexclude):
  """Boolean (nray, ngeom): geoms a ray with this filter may hit (reimplementation of mj_ray's ray_eliminate)."""
  ng = mjm.ngeom
  body = np.array(mjm.geom_bodyid)
  matid = np.array(mjm.geom_matid)
  alpha = np.array(mjm.geom_rgba)[:, 3]
  matalpha = np.where(matid >= 0, np.array(mjm.mat_rgba)[np.maximum(matid, 0), 3] if mjm.nmat else 1.0, 1.0)
  vis = np.where(matid >= 0, matalpha != 0, alpha != 0)
  ok = vis.copy()
  if not flg_static:
    ok &= np.array(mjm.body_weldid)[body] != 0
  if geomgroup is not None:
    grp = np.clip(np.array(mjm.geom_group), 0, 5)
    ok &= np.asarray(geomgroup)[grp] != 0
  be = np.asarray(bodyexclude).reshape(-1, 1)
  return ok[None, :] & (body[None, :] != be)


def nearest(D, E):
  """Nearest eligible hit per ray: (dist or -1, geom id or -1, second-nearest dist or inf)."""
  X = np.where(E & (D >= 0), D, np.inf)
  idx = np.argmin(X, axis=1)
  dmin = X[np.arange(len(X)), idx]
  X2 = X.copy()
  X2[np.arange(len(X)), idx] = np.inf
  d2 = X2.min(axis=1) if X.shape[1] > 1 else np.full(len(X), np.inf)
  hit = np.isfinite(dmin)
  return np.where(hit, dmin, -1.0), np.where(hit, idx, -1), d2


def perturb(pnt, vec, rng, mode):
  """mode 'ulp': +-2 float32 ulps per component; mode 'geo': 2e-5-scale displacement / rotation."""
  if mode == "ulp":
    ep = np.spacing(np.abs(pnt).astype(np.float32)).astype(np.float64)
    ev = np.spacing(np.abs(vec).astype(np.float32)).astype(np.float64)
    return pnt + rng.integers(-2, 3, size=pnt.shape) * np.maximum(ep, 1e-9), vec + rng.integers(-2, 3, size=vec.shape) * np.maximum(ev, 1e-9)
  s = 2e-5
  dp = rng.normal(size=pnt.shape)
  dp /= np.linalg.norm(dp, axis=1, keepdims=True)
  dv = rng.normal(size=vec.shape)
  dv /= np.linalg.norm(dv, axis=1, keepdims=True)
  vn = np.linalg.norm(vec, axis=1, keepdims=True)
  return pnt + s * (1 + np.linalg.norm(pnt, axis=1, keepdims=True)) * dp, vec + s * vn * dv
