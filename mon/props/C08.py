"""C08 Time integration agrees with MuJoCo C.

Differential monitor: one mjw.step() versus mujoco.mj_step() from the same float32 state (qpos, qvel, act, time,
qacc_warmstart and all inputs), for Euler (implicit damping on/off, polynomial damping), implicitfast, implicit and RK4;
lock-step trajectories of up to 3 steps re-synchronised on MuJoCo's float32-rounded result after every step.
Post-solver quantities of constrained worlds are judged only under the gating rule (mon/props/_step.py).
A 'flags' family crosses every integrator with directed combinations of disable flags (DAMPER, EULERDAMP, SPRING, ACTUATION,
GRAVITY, CLAMPCTRL, FRICTIONLOSS, LIMIT, EQUALITY, CONSTRAINT, CONTACT, WARMSTART, REFSAFE) on damped / polynomially damped
models; a flag counts as exercised only where MuJoCo's own step changes when it is cleared again.
"""

import mujoco
import numpy as np

from mon import core, gen, mw
from mon.props import _step

ID = "C08"
LEVEL = "exploration"
RULE = (
  "case=(kind,seed,integrator): kind 'free' = generated constraint-free tree (free/ball/hinge/slide, springs, dampers incl. "
  "polynomial damping, armature, gravcomp, fluid, tendons, actuators with integrator/filter/filterexact/muscle/dcmotor "
  "dynamics, actearly, act limits); 'soft' = same plus joint/tendon limits, equalities and frictionloss (Newton, no "
  "contacts); 'contact' = spheres/capsules/boxes-free scene resting on a plane; 'repo' = repository model; 'cap0' = "
  "constraint-free model stepped with njmax=0 vs njmax=64 (capacity must not matter); 'flags' = free / soft / contact "
  "workload with directed combinations of disable flags (damper, damper+eulerdamp, spring, spring+damper, actuation, "
  "actuation+damper, actuation+spring+damper, gravity, clampctrl, frictionloss, limit, equality, constraint, warmstart, "
  "refsafe, contact) x every integrator, thorough tier adds random further disable / enable flags; a flag counts as "
  "exercised only in a judged world where MuJoCo's own step changes when that flag is cleared. 3 worlds with "
  "different random states (|omega| up to 30 rad/s on ball/free joints, unnormalised quaternions, random warmstart), 1 or 3 "
  "lock-steps. Non-trivial: nv>=2 and at least one world judged on qvel; distinct by hash(xml, integrator, flags, states)."
)
ASSUMPTIONS = [
  "MuJoCo 3.13 mj_step (float64) is the reference from the same float32-representable state incl. qacc_warmstart",
  "per-world noise floor measured by +-2ulp perturbation of the inputs of the reference; structure flips => ungated",
  "post-solver quantities are judged only when ne/nf/nl/nefc/ncon agree and no engine hit its iteration limit",
  "acceleration-class allowance 1e-3*max(1,|qacc|) (solver tolerance 1e-6 in MJWarp vs 1e-8 in MuJoCo, float32 M^-1)",
  "actuators are kept off ball/free joints (MuJoCo 3.13 wraps their position error: version skew, C03's subject)",
  "implicitfast: lone free bodies get zero angular velocity (MuJoCo 3.13 integrates their gyroscopic torque implicitly, "
  "MJWarp 3.12 does not: version skew)",
  "IMPLICIT: a qvel/qpos mismatch that equals the solution of the sign-flipped RNE-derivative system is reported under the "
  "single mechanism signature implicit:rne_derivative_sign; any other mismatch keeps its own signature",
  "mechanism relabelling (never suppresses a mismatch): a mismatch that equals MuJoCo's step with the actuator forces clamped "
  "in MJWarp's order (forcerange before tendon actuatorfrcrange), or an act mismatch that equals the input act clamped to "
  "actrange under ACTUATION disabled, is reported under its mechanism signature instead of the generic field signature",
  "flags family: disable flags are set on the compiled model (opt.disableflags); for clampctrl / frictionloss / damper cases "
  "ctrlrange, dof_frictionloss, dof_damping are edited post-compile when the generated model lacks the feature",
]
BUDGET = {"quick": 200, "thorough": 1800}

INTEGRATORS = ("Euler", "implicitfast", "implicit", "RK4")
INT_ENUM = {"Euler": 0, "RK4": 1, "implicit": 2, "implicitfast": 3}

P_FREE = gen.profile(
  nbody=(2, 7),
  p_spring=0.5,
  p_damping=0.7,
  p_armature=0.5,
  p_gravcomp=0.3,
  fluid=0.3,
  tendon_fixed=0.4,
  tendon_spatial=0.3,
  p_mocap=0.1,
  actuators=3,
  act_kinds=("motor", "position", "velocity", "general", "general", "intvelocity", "damper", "cylinder", "muscle", "dcmotor"),
  act_trn=("joint", "tendon", "site", "jointinparent", "slidercrank"),
  act_ball=False,
  p_massless=0.1,
  timestep=(0.00390625, 0.001953125, 0.0078125, 0.002, 0.005),
  p_poly=0.5,
  p_actfrcrange=0.3,
  p_actgravcomp=0.3,
)
P_SOFT = gen.profile(
  nbody=(2, 7),
  p_spring=0.4,
  p_damping=0.6,
  p_armature=0.5,
  tendon_fixed=0.5,
  tendon_spatial=0.3,
  p_limit=0.6,
  p_frictionloss=0.3,
  equality=2,
  actuators=2,
  act_kinds=("motor", "position", "general"),
  act_ball=False,
  p_mocap=0.1,
  timestep=(0.00390625, 0.001953125, 0.002),
  p_poly=0.5,
  p_actfrcrange=0.3,
)

# Disable / enable flag family ('flags' kind): every integrator is run under directed combinations of option flags that
# change what the integrators (and the forward pass feeding them) compute.  (flag names, base workload)
FLAG_COMBOS = [
  (("damper",), "free"),  # Euler must skip implicit damping; implicit(fast) must drop damping from qDeriv
  (("damper", "eulerdamp"), "free"),
  (("spring",), "free"),
  (("spring", "damper"), "free"),  # all passive forces off (gravcomp, fluid too)
  (("actuation",), "free"),
  (("actuation", "damper"), "free"),
  (("actuation", "spring", "damper"), "free"),  # implicitfast: nothing left to differentiate
  (("gravity",), "free"),
  (("clampctrl",), "free"),
  (("damper",), "soft"),
  (("frictionloss",), "soft"),
  (("limit",), "soft"),
  (("equality",), "soft"),
  (("constraint",), "soft"),
  (("warmstart",), "soft"),
  (("refsafe",), "soft"),
  (("contact",), "contact"),
  (("warmstart",), "contact"),
]
FLAG_POOL = ("damper", "spring", "eulerdamp", "gravity", "actuation", "clampctrl", "frictionloss", "limit", "equality", "contact", "warmstart", "refsafe", "filterparent", "sensor")
ENABLE_POOL = ("energy", "invdiscrete")
# flags whose effect on the next state must have been observed (MuJoCo's own step changes when the flag is cleared)
FLAGS_REQUIRED = ("damper", "spring", "actuation", "gravity", "clampctrl", "frictionloss", "limit", "equality", "contact")


def flag_bits(names):
  return sum(int(getattr(mujoco.mjtDisableBit, "mjDSBL_" + n.upper())) for n in names)


REPO_MODELS = [
  "pendula.xml",
  "actuation/actuators.xml",
  "actuation/actuation.xml",
  "actuation/position.xml",
  "tendon/armature.xml",
  "tendon/damping.xml",
  "tendon/fixed.xml",
  "constraints.xml",
  "humanoid/humanoid.xml",
]


def contact_xml(rng):
  """Well-conditioned contact scene: spheres / capsules on a plane (unique manifolds), random small penetration."""
  n = int(rng.integers(1, 4))
  cone = ("pyramidal", "elliptic")[int(rng.integers(2))]
  ts = (0.00390625, 0.001953125)[int(rng.integers(2))]
  bodies = []
  for i in range(n):
    r = rng.uniform(0.08, 0.2)
    z = r - rng.uniform(0.0, 0.01)
    x, y = (i - 1) * 0.8 + rng.normal() * 0.05, rng.normal() * 0.1
    if rng.random() < 0.3:
      g = f'<geom type="capsule" size="{r:.4g} {rng.uniform(0.05, 0.2):.4g}" euler="0 90 0" condim="{(3, 4, 6)[int(rng.integers(3))]}"/>'
    else:
      g = f'<geom type="sphere" size="{r:.4g}" condim="{(1, 3, 3, 4, 6)[int(rng.integers(5))]}" friction="{rng.uniform(0.3, 1.2):.3g} 0.01 0.001"/>'
    bodies.append(f'<body pos="{x:.4g} {y:.4g} {z:.5g}"><freejoint/>{g}</body>')
  return f"""<mujoco>
  <option timestep="{ts}" cone="{cone}" {'impratio="3"' if rng.random() < 0.3 else ''}/>
  <worldbody>
    <geom type="plane" size="0 0 1"/>
    {' '.join(bodies)}
  </worldbody>
</mujoco>"""


def cases(tier, seed):
  nf, ns, nc = (96, 40, 16) if tier == "quick" else (2400, 1000, 400)
  out = []
  for i in range(nf):
    integ = INTEGRATORS[i % 4]
    out.append({"id": f"free{seed}_{i}", "kind": "free", "seed": seed * 100000 + i, "integrator": integ, "eulerdamp": (i // 4) % 2, "poly": (i // 8) % 2, "nsteps": 3 if i % 3 == 0 else 1, "weight": 2 if integ == "RK4" else 1})
  for i in range(ns):
    integ = INTEGRATORS[i % 4]
    out.append({"id": f"soft{seed}_{i}", "kind": "soft", "seed": seed * 100000 + 20000 + i, "integrator": integ, "eulerdamp": (i // 4) % 2, "poly": 0, "nsteps": 3 if i % 3 == 0 else 1, "weight": 2})
  for i in range(nc):
    integ = INTEGRATORS[i % 4]
    out.append({"id": f"contact{seed}_{i}", "kind": "contact", "seed": seed * 100000 + 40000 + i, "integrator": integ, "eulerdamp": (i // 4) % 2, "poly": 0, "nsteps": 3, "weight": 2})
  for i in range(8 if tier == "quick" else 80):
    integ = INTEGRATORS[i % 4]
    out.append({"id": f"cap0_{seed}_{i}", "kind": "cap0", "seed": seed * 100000 + 80000 + i, "integrator": integ, "eulerdamp": 0, "poly": 0, "nsteps": 1, "weight": 1})
  nfl = len(FLAG_COMBOS) * 4
  for i in range(nfl if tier == "quick" else 10 * nfl):
    integ = INTEGRATORS[i % 4]
    names, base = FLAG_COMBOS[(i // 4) % len(FLAG_COMBOS)]
    # round 0 (the whole quick tier): the directed combination alone; later rounds add random further flags
    out.append({"id": f"flags{seed}_{i}", "kind": "flags", "base": base, "seed": seed * 100000 + 90000 + i, "integrator": integ, "eulerdamp": 0, "poly": 0, "flags": list(names), "extra_flags": int(i >= nfl), "nsteps": 2 if (i // 4) % 3 == 0 else 1, "weight": 2})
  for k, p in enumerate(REPO_MODELS):
    for r in range(1 if tier == "quick" else 8):
      integ = INTEGRATORS[(k + r) % 4]
      out.append({"id": f"repo{seed}_{k}_{r}", "kind": "repo", "path": p, "seed": seed * 100000 + 60000 + 10 * k + r, "integrator": integ, "eulerdamp": r % 2, "poly": 0, "nsteps": 2, "weight": 3})
  return out


def build_model(case, rng):
  import os

  kind = case.get("base", case["kind"])  # 'flags' cases are built on the free / soft / contact workloads
  if kind in ("free", "soft", "cap0"):
    xml, mjm, feat, s = gen.make_model(case["seed"], P_SOFT if kind == "soft" else P_FREE, accept=_step.well_conditioned)
    if mjm is None:
      return None, None, None
  elif kind == "contact":
    xml = contact_xml(rng)
    mjm = mujoco.MjModel.from_xml_string(xml)
    feat = ["contact_scene", "joint:free"]
  else:
    path = os.path.join(core.TEST_DATA, case["path"])
    if not os.path.exists(path):
      return None, None, None
    try:
      mjm = mujoco.MjModel.from_xml_path(path)
    except Exception:
      return None, None, None
    xml, feat = case["path"], ["repo:" + case["path"]]
    if mjm.opt.enableflags & mujoco.mjtEnableBit.mjENBL_SLEEP:
      mjm.opt.enableflags &= ~int(mujoco.mjtEnableBit.mjENBL_SLEEP)
  mjm.opt.integrator = INT_ENUM[case["integrator"]]
  if case["eulerdamp"]:
    mjm.opt.disableflags |= int(mujoco.mjtDisableBit.mjDSBL_EULERDAMP)
    feat = list(feat) + ["disable:eulerdamp"]
  if case.get("flags"):
    names = list(case["flags"])
    enable = []
    rf = np.random.default_rng([int(case["seed"]) & 0xFFFFFFFF, 0xF1A6])  # own stream: `rng` draws stay as without flags
    # make the directed flag matter (post-compile edits of plain numeric model fields, as for dof_dampingpoly below)
    if "clampctrl" in names and mjm.nu:
      free = np.flatnonzero(mjm.actuator_ctrllimited == 0)
      mjm.actuator_ctrlrange[free] = np.sort(rf.uniform(-0.6, 0.8, size=(free.size, 2)), axis=1) + np.array([-0.05, 0.05])
      mjm.actuator_ctrllimited[:] = 1
    scal = [j for j in range(mjm.njnt) if int(mjm.jnt_type[j]) in (int(mujoco.mjtJoint.mjJNT_HINGE), int(mujoco.mjtJoint.mjJNT_SLIDE))]
    if "frictionloss" in names and scal and not np.any(mjm.dof_frictionloss > 0):
      mjm.dof_frictionloss[mjm.jnt_dofadr[scal[int(rf.integers(len(scal)))]]] = rf.uniform(0.1, 1.0)
    if "damper" in names and mjm.nv and not np.any(mjm.dof_damping > 0):
      j = int(rf.integers(mjm.njnt))
      mjm.dof_damping[mjm.dof_jntid == j] = rf.uniform(0.2, 2.0)
    if case.get("extra_flags"):
      names += [n for n in FLAG_POOL if n not in names and rf.random() < 0.12]
      enable = [n for n in ENABLE_POOL if rf.random() < 0.3]
    mjm.opt.disableflags |= flag_bits(names)
    for n in enable:
      mjm.opt.enableflags |= int(getattr(mujoco.mjtEnableBit, "mjENBL_" + n.upper()))
    feat = list(feat) + ["disable:" + n for n in names] + ["enable:" + n for n in enable]
  if case["poly"] and hasattr(mjm, "dof_dampingpoly") and mjm.nv:
    # one value per joint (what the MJCF compiler produces: all dofs of a ball/free joint share the joint's damping)
    poly = rng.uniform(0, 0.3, size=(mjm.njnt, 2)) * (rng.random(size=(mjm.njnt, 1)) < 0.5)
    poly = poly[mjm.dof_jntid]
    mjm.dof_dampingpoly[:] = poly
    if poly.any():
      feat = list(feat) + ["dampingpoly"]
  if kind != "free":
    mjm.opt.iterations = 100
    mjm.opt.ls_iterations = 50
  return xml, mjm, list(feat)


def sample_states(mjm, rng, kind, nworld=3):
  states = []
  for w in range(nworld):
    vel = float(rng.choice([0.3, 3.0])) if kind != "contact" else 0.5
    st = gen.sample_state(mjm, rng, vel=vel, quat_scale=(kind != "contact"), applied=(kind != "contact" or w == 0))
    if kind == "repo" and mjm.nbody > 12 and np.any(mjm.geom_contype | mjm.geom_conaffinity):
      # colliding repository models: stay near the reference pose (random poses give deep, stiff penetrations)
      q0 = np.array(mjm.qpos0, dtype=np.float64)
      for j in range(mjm.njnt):
        if mjm.jnt_type[j] in (mujoco.mjtJoint.mjJNT_HINGE, mujoco.mjtJoint.mjJNT_SLIDE):
          q0[mjm.jnt_qposadr[j]] += rng.normal() * 0.1
      st["qpos"] = q0.astype(np.float32)
    if kind == "contact":
      # keep the generated resting pose (touching the plane); small tangential / normal velocities
      st["qpos"] = np.array(mjm.qpos0, dtype=np.float32)
      st["qpos"][2::7] -= rng.uniform(0, 0.005, size=st["qpos"][2::7].shape).astype(np.float32)
      st["xfrc_applied"] = (st["xfrc_applied"] * 0.2).astype(np.float32)
    elif w == 2:
      # large angular velocity on ball / free joints
      qv = st["qvel"].astype(np.float64)
      for j in range(mjm.njnt):
        a = int(mjm.jnt_dofadr[j])
        if mjm.jnt_type[j] == mujoco.mjtJoint.mjJNT_FREE:
          qv[a + 3 : a + 6] = rng.normal(size=3) * 15
        elif mjm.jnt_type[j] == mujoco.mjtJoint.mjJNT_BALL:
          qv[a : a + 3] = rng.normal(size=3) * 15
      st["qvel"] = qv.astype(np.float32)
    st["qacc_warmstart"] = (rng.normal(size=mjm.nv) * (5.0 if w else 0.0)).astype(np.float32)
    if int(mjm.opt.integrator) == int(mujoco.mjtIntegrator.mjINT_IMPLICITFAST):
      _step.neutralise_lone_free(mjm, st)  # MuJoCo 3.13-only implicit gyroscopic treatment of lone free bodies
    states.append(st)
  return states


def capacity_zero(rec, case, xml, mjm, m, states):
  """Constraint-free model: one step with njmax=0 (legal capacity, the solver is skipped) must equal the step with njmax=64."""
  import mujoco_warp as mjw

  integ = case["integrator"]
  for s in states:
    s.setdefault("qacc_warmstart", np.zeros(mjm.nv, np.float32))
  d0 = mw.make_data(mjm, m, states, njmax=0)
  d1 = mw.make_data(mjm, m, states, njmax=64)
  mjw.step(m, d0)
  mjw.step(m, d1)
  if int(mw.npy(d1.nefc).max()) > 0:
    rec.inconcl("model has constraints: njmax=0 would legitimately overflow")
    return rec.result()
  v1 = np.array(mw.npy(d1.qvel))
  if not np.all(np.isfinite(v1)) or float(np.abs(v1).max(initial=0)) > 1e6:
    # the step itself diverges (e.g. cubic damping on a near-massless dof under explicit RK4 stages): round-off level
    # differences between the two code paths are amplified without bound, nothing can be judged
    rec.inconcl("step diverges (|qvel| > 1e6 after one step): not judged")
    rec.count("cap0:diverging_step_not_judged")
    return rec.result()
  for k in ("qvel", "qpos", "act", "time", "qacc_warmstart"):
    if rec.violations and rec.violations[0]["sig"].startswith("njmax0:velocity_not_integrated"):
      break  # qpos differences are consequences of the unintegrated velocity
    a, b = np.array(mw.npy(getattr(d0, k))), np.array(mw.npy(getattr(d1, k)))
    rec.check()
    if a.tobytes() == b.tobytes():
      rec.count("cap0:bit_equal_fields")
      continue
    scale = max(1.0, float(np.abs(b).max(initial=0)))
    err = float(np.abs(a.astype(np.float64) - b).max()) if np.all(np.isfinite(a)) else float("inf")
    rec.worst("cap0:" + k, err / (1e-4 * scale))
    if err > 1e-2 * scale or (k == "qvel" and err > 1e-4 * scale and np.array_equal(a, np.stack([s["qvel"] for s in states]))):
      unchanged = k == "qvel" and np.array_equal(a, np.stack([s["qvel"] for s in states]))
      sig = "njmax0:velocity_not_integrated(efc.Ma never written)" if unchanged else f"njmax0:{k}_differs_from_njmax64"
      rec.viol(sig, f"{integ}: step with njmax=0 gives {k} differing by {err:.3g} from the same step with njmax=64 on a constraint-free model" + ("; qvel is bit-identical to the initial qvel: solve() returns early for njmax==0 without writing efc.Ma, which euler()/implicit() use as right-hand side" if unchanged else ""))
    elif err > 1e-4 * scale:
      rec.inconcl(f"cap0 {k}: difference between round-off and violation line")
  rec.cover("cap0:" + integ, 1)
  if mjm.nv >= 2:
    rec.nontrivial(xml, integ, "cap0", *[s["qpos"] for s in states])
  rec.sample = {"kind": "cap0", "integrator": integ, "nv": mjm.nv, "has_damping": bool(np.any(mjm.dof_damping > 0))}
  return rec.result()


SIG_TENDON_ORDER = "actuation:tendon_actfrcrange_scaled_after_forcerange_clamp"
SIG_ACT_DISABLED = "advance:act_clamped_to_actrange_although_actuation_disabled"


def tendon_clamp_order_hypothesis(mjm, st):
  """MuJoCo's step from `st` with the actuator forces recomputed in the order MJWarp uses: per-actuator forcerange clamp
  first (inside forward._actuator_force), tendon total-force scaling (tendon actuatorfrcrange) second.  MuJoCo 3.13 scales
  the unclamped forces by the tendon range first and clamps to forcerange afterwards.  The force difference is injected as
  an applied generalised force.  None when the two orders agree in this state or the emulation would not be exact."""
  import copy

  TEN = int(mujoco.mjtTrn.mjTRN_TENDON)
  if not mjm.nu or not mjm.ntendon or (mjm.opt.disableflags & int(mujoco.mjtDisableBit.mjDSBL_ACTUATION)):
    return None
  ten_act = [i for i in range(mjm.nu) if int(mjm.actuator_trntype[i]) == TEN]
  if not any(mjm.actuator_forcelimited[i] and mjm.tendon_actfrclimited[mjm.actuator_trnid[i, 0]] for i in ten_act):
    return None
  m0 = copy.copy(mjm)
  m0.actuator_forcelimited[:] = 0
  m0.tendon_actfrclimited[:] = 0
  d0 = mujoco.MjData(m0)
  mw.apply_state_mj(m0, d0, st)
  mujoco.mj_forward(m0, d0)
  raw = np.array(d0.actuator_force)
  d1 = mujoco.MjData(mjm)
  mw.apply_state_mj(mjm, d1, st)
  mujoco.mj_forward(mjm, d1)
  f_mj = np.array(d1.actuator_force)

  def scale_tendon(f):
    tot = np.zeros(mjm.ntendon)
    for i in ten_act:
      tot[mjm.actuator_trnid[i, 0]] += f[i]
    for i in ten_act:
      t = int(mjm.actuator_trnid[i, 0])
      if mjm.tendon_actfrclimited[t]:
        lo, hi = mjm.tendon_actfrcrange[t]
        if tot[t] < lo:
          f[i] *= lo / tot[t]
        elif tot[t] > hi:
          f[i] *= hi / tot[t]
    return f

  def clamp_force(f):
    for i in range(mjm.nu):
      if mjm.actuator_forcelimited[i]:
        f[i] = np.clip(f[i], *mjm.actuator_forcerange[i])
    return f

  tol = 1e-9 * max(1.0, float(np.abs(raw).max()))
  if np.abs(clamp_force(scale_tendon(raw.copy())) - f_mj).max() > tol:
    return None  # this model of MuJoCo's own order does not reproduce MuJoCo: claim nothing
  delta = scale_tendon(clamp_force(raw.copy())) - f_mj
  if np.abs(delta).max() <= tol:
    return None
  dq = _step._actuator_moment_dense(mjm, d1).T @ delta
  for j in range(mjm.njnt):
    if mjm.jnt_actfrclimited[j]:
      a = int(mjm.jnt_dofadr[j])
      n = {int(mujoco.mjtJoint.mjJNT_FREE): 6, int(mujoco.mjtJoint.mjJNT_BALL): 3}.get(int(mjm.jnt_type[j]), 1)
      if np.any(dq[a : a + n] != 0):
        return None  # a joint-level actuator force clamp sits behind the changed force: an applied force is not equivalent
  st2 = dict(st)
  st2["qfrc_applied"] = np.asarray(st["qfrc_applied"], dtype=np.float64) + dq
  d2 = mujoco.MjData(mjm)
  mw.apply_state_mj(mjm, d2, st2)
  mujoco.mj_step(mjm, d2)
  return {"qvel": np.array(d2.qvel), "qpos": np.array(d2.qpos), "qacc_warmstart": np.array(d2.qacc_warmstart), "qacc": np.array(d2.qacc), "delta": delta, "f_mj": f_mj}


def mechanism_probe(mjm, prefix):
  """step_compare callback: a world whose generic qvel / qpos / qacc_warmstart mismatch equals MuJoCo's step with the actuator
  forces clamped in MJWarp's order is reported once under the mechanism signature SIG_TENDON_ORDER instead."""
  from mon import cmp

  generic = {prefix + k for k in ("qvel", "qpos", "qpos_quat", "qacc_warmstart")}
  seen = [0]

  def extra(rec, got, w, st, ref, noise, verdict):
    mine = [v for v in rec.violations[seen[0] :] if v["sig"] in generic]
    if mine:
      hyp = tendon_clamp_order_hypothesis(mjm, st)
      if hyp is not None:
        nv = mjm.nv
        tmp = core.Rec({})
        accscale = max(1.0, float(np.abs(hyp["qacc"]).max()))
        cmp.judge(tmp, "qacc_warmstart", got["qacc_warmstart"][w][:nv], hyp["qacc_warmstart"], _step.A_ACC, noise["qacc_warmstart"])
        _step._judge_post(tmp, mjm, got, w, hyp, noise, accscale, prefix, "", _step.A_ACC)
        if not tmp.violations and not tmp.inconclusive:
          keep = [v for v in rec.violations if not any(v is x for x in mine)]
          rec.violations[:] = keep
          rec.count("reproduced:tendon_clamp_order")
          rec.viol(SIG_TENDON_ORDER, "next qvel/qpos/qacc_warmstart differ from MuJoCo and equal (within the float32 bound) MuJoCo's step with the actuator forces recomputed in MJWarp's order: forcerange clamp first (forward._actuator_force), tendon actuatorfrcrange scaling second (forward._tendon_actuator_force_clamp); MuJoCo scales by the tendon range first and clamps to forcerange last; " + f"actuator_force mujoco={np.round(hyp['f_mj'], 5).tolist()} mjwarp-order delta={np.round(hyp['delta'], 5).tolist()}; first field: {mine[0]['msg'][:200]}", **mine[0].get("data", {}))
    acts = [v for v in rec.violations[seen[0] :] if v["sig"] == prefix + "act"]
    if acts and mjm.na and (mjm.opt.disableflags & int(mujoco.mjtDisableBit.mjDSBL_ACTUATION)):
      # ACTUATION disabled: MuJoCo's mj_advance leaves act untouched; does MJWarp's act equal next_act with act_dot = 0,
      # i.e. the input activation clamped to actrange?
      a0 = np.asarray(st["act"], dtype=np.float64)
      hyp = a0.copy()
      for i in range(mjm.nu):
        if mjm.actuator_actlimited[i] and mjm.actuator_actadr[i] >= 0:
          k = int(mjm.actuator_actadr[i]) + int(mjm.actuator_actnum[i]) - 1
          hyp[k] = np.clip(a0[k], *mjm.actuator_actrange[i])
      tmp = core.Rec({})
      cmp.judge(tmp, "act", got["act"][w][: mjm.na], hyp, _step.A_PRE, noise["act"])
      if np.abs(hyp - a0).max() > 0 and not tmp.violations and not tmp.inconclusive:
        rec.violations[:] = [v for v in rec.violations if not any(v is x for x in acts)]
        rec.count("reproduced:act_clamped_actuation_disabled")
        rec.viol(SIG_ACT_DISABLED, "ACTUATION disabled: MuJoCo's mj_advance skips the activation update (act stays as given, here outside actrange), MJWarp's forward._advance always launches _next_activation, which with act_dot = 0 clamps act to actrange; " + f"act in={a0.tolist()} mujoco={np.asarray(ref['act']).tolist()} mjwarp={np.asarray(got['act'][w][: mjm.na]).tolist()}; {acts[0]['msg'][:200]}", **acts[0].get("data", {}))
    seen[0] = len(rec.violations)

  return extra


def flag_effect_probe(mjm, names, integ):
  """Per judged world: which of the disabled flags actually mattered?  MuJoCo's own step from the same state with that one
  flag cleared again gives a different next qvel / act (so a flag test that MJWarp drops or widens is observable in this
  world).  Decided from MuJoCo outputs only; feeds the coverage counters that requirements() demands."""
  import copy

  alts = {}
  for n in names:
    a = copy.copy(mjm)
    a.opt.disableflags &= ~flag_bits([n])
    alts[n] = a
  has_damping = bool(mjm.nv and (np.any(mjm.dof_damping > 0) or (hasattr(mjm, "dof_dampingpoly") and np.any(mjm.dof_dampingpoly != 0))))

  def extra(rec, got, w, st, ref, noise, verdict):
    if verdict == "ungated":
      return
    rec.cover("flags:worlds_judged", 1)
    scale = max(1.0, float(np.abs(ref["qvel"]).max(initial=0)))
    for n, a in alts.items():
      d = mujoco.MjData(a)
      mw.apply_state_mj(a, d, st)
      mujoco.mj_step(a, d)
      diff = max(float(np.abs(d.qvel - ref["qvel"]).max(initial=0)), float(np.abs(d.act - ref["act"]).max(initial=0)))
      if np.isfinite(diff) and diff > 1e-4 * scale:
        rec.cover("flag_effective:" + n, 1)
        rec.cover(f"flag_effective:{n}:{integ}", 1)
        if n == "damper" and integ == "Euler" and "eulerdamp" not in names and has_damping:
          rec.cover("euler:damper_off_eulerdamp_on_with_damping", 1)

  return extra


def run_case(case):
  rec = core.Rec(case)
  rng = np.random.default_rng(case["seed"])
  xml, mjm, feat = build_model(case, rng)
  if mjm is None:
    rec.rejected = "mujoco compile / missing"
    return rec.result()
  try:
    m = mw.put_model(mjm)
  except (NotImplementedError, ValueError) as e:
    rec.rejected = f"put_model: {e}"[:200]
    rec.count("rejected_put_model")
    return rec.result()
  states = sample_states(mjm, rng, case.get("base", case["kind"]))
  integ = case["integrator"]
  if case["kind"] == "cap0":
    return capacity_zero(rec, case, xml, mjm, m, states)
  probes = [mechanism_probe(mjm, integ + ":")]
  if case["kind"] == "flags":
    probes.append(flag_effect_probe(mjm, [f[8:] for f in feat if f.startswith("disable:")], integ))

  def extra(*a):
    for p in probes:
      p(*a)

  res =_step.step_compare(rec, mjm, m, states, nsteps=case["nsteps"], seed=case["seed"], prefix=integ + ":", extra=extra)
  judged = res["gated"] + res["free"]
  rec.cover("integrator:" + integ, judged)
  rec.cover("kind:" + case["kind"], judged)
  rec.cover("worlds_judged_constraint_free", res["free"])
  rec.cover("worlds_judged_gated_constrained", res["gated"])
  rec.cover("worlds_ungated", res["ungated"])
  if judged:
    for f in feat:
      rec.cover("features", f)
    if integ == "Euler":
      rec.cover("euler:eulerdamp_off" if case["eulerdamp"] else "euler:eulerdamp_on", judged)
      if mjm.nv and np.any(mjm.dof_damping > 0):
        rec.cover("euler:with_damping", judged)
    if mjm.na:
      rec.cover("with_act_state:" + integ, judged)
    if case["nsteps"] > 1:
      rec.cover("lockstep_multi", 1)
    if res["gated"]:
      rec.cover("gated:" + integ, res["gated"])
      ref0 = res["refs"][0]["struct"].astype(int)
      for name, v in zip(("ne", "nf", "nl"), ref0[:3]):
        if v:
          rec.cover("rows:" + name, 1)
      if ref0[4]:
        rec.cover("rows:contact", 1)
  if mjm.nv >= 2 and judged:
    rec.nontrivial(xml, integ, case["eulerdamp"], case["poly"], *[f for f in feat if f.startswith(("disable:", "enable:")) and case["kind"] == "flags"], *[s["qpos"] for s in states], *[s["qvel"] for s in states])
  rec.sample = {"kind": case["kind"], "flags": [f for f in feat if f.startswith(("disable:", "enable:"))], "model": case.get("path", f"seed {case['seed']}"), "integrator": integ, "nv": mjm.nv, "na": mjm.na, "nu": mjm.nu, "timestep": float(mjm.opt.timestep), "eulerdamp_disabled": bool(case["eulerdamp"]), "nsteps": case["nsteps"], "judged_worlds": judged, "ungated_worlds": res["ungated"], "qvel_world2": states[2]["qvel"][:6]}
  return rec.result()


def requirements(agg, tier):
  unmet = []
  cov = agg["cover"]
  feats = set(cov.get("features", []))
  for integ in INTEGRATORS:
    if cov.get("integrator:" + integ, 0) < 20:
      unmet.append(f"fewer than 20 judged worlds for integrator {integ}")
    if cov.get("with_act_state:" + integ, 0) < 3:
      unmet.append(f"actuator activation state never integrated with {integ}")
    if cov.get("gated:" + integ, 0) < 3:
      unmet.append(f"fewer than 3 gated constrained worlds for {integ}")
  if sum(cov.get("cap0:" + i, 0) for i in INTEGRATORS) < 4:
    unmet.append("njmax=0 capacity class never compared")
  for k in ("euler:eulerdamp_on", "euler:eulerdamp_off", "euler:with_damping", "lockstep_multi", "rows:ne", "rows:nf", "rows:nl", "rows:contact"):
    if not cov.get(k):
      unmet.append(f"never observed: {k}")
  for f in ("joint:free", "joint:ball", "joint:hinge", "joint:slide", "damping", "dampingpoly", "dyn:integrator", "dyn:filter", "dyn:filterexact", "actearly", "actlimited"):
    if f not in feats:
      unmet.append(f"feature never judged: {f}")
  # disable-flag family: the flag must have mattered (MuJoCo's own step changes when it is cleared) in a judged world
  thin = ("frictionloss", "limit", "equality")  # depend on which constraints the few quick-tier models happen to activate
  for n in FLAGS_REQUIRED:
    if not cov.get("flag_effective:" + n) and (tier != "quick" or n not in thin):
      unmet.append(f"disable flag {n}: no judged world in which the flag changes the step")
  if sum(1 for n in thin if cov.get("flag_effective:" + n)) < 2:
    unmet.append("fewer than 2 of the constraint disable flags (frictionloss, limit, equality) effective in a judged world")
  for integ in INTEGRATORS:
    if not cov.get(f"flag_effective:damper:{integ}"):
      unmet.append(f"disable flag damper never effective in a judged {integ} world")
  if not cov.get("euler:damper_off_eulerdamp_on_with_damping"):
    unmet.append("never observed: Euler with DAMPER disabled, EULERDAMP not disabled, on a damped model")
  tot = cov.get("worlds_judged_constraint_free", 0) + cov.get("worlds_judged_gated_constrained", 0) + cov.get("worlds_ungated", 0)
  if tot and cov.get("worlds_ungated", 0) > 0.5 * tot:
    unmet.append("more than half of the worlds ungated")
  if agg["distinct"] < 30:
    unmet.append("fewer than 30 distinct non-trivial cases")
  return unmet
