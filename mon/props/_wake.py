"""Sleep / wake scenes for the schedule monitor (C11): concurrent waking of sleeping trees.

Zero gravity, every body is a sphere on its own slide joint along x (one kinematic tree each).  In the middle sit
'sleepers': heavy spheres at rest, alone or linked by joint-equality constraints into one island, which fall asleep
(as a sleep cycle) after the minimum awake time.  From both sides 'wakers' approach: a fast one (wake counter at its
floor) and one that decelerates on a damped joint to below the sleep tolerance and is therefore in its sleep
countdown when it arrives.  The start gaps are randomised per world so that, in a fraction of the worlds, both
wakers enter the contact margin of the sleeping cycle in the same step: then two tasks of one wake-kernel launch wake
the same cycle with different wake values, and the merge must not depend on which task runs first.
"""

import mujoco
import numpy as np

R = 0.1
MARGIN = 0.01
DT = 0.002


def build(rng, ncycle):
  """-> (xml, mjm, layout) with layout = dict(sleepers=[tree ids], wakers=[(tree id, side)])."""
  tol = float(rng.choice([0.05, 0.1, 0.2]))
  bodies = []
  # sleepers at x = 0, 2R+gap, ...
  gap = 0.05
  xs = [k * (2 * R + gap) for k in range(ncycle)]
  names = []
  x0 = -(2 * R + 0.5)
  bodies.append(("wl", x0, 0.05 + 0.2 * rng.random(), 0.0))
  for k, x in enumerate(xs):
    bodies.append((f"s{k}", x, 20.0 + 60.0 * rng.random(), 0.0))
  x1 = xs[-1] + (2 * R + 0.5)
  bodies.append(("wr", x1, 0.05 + 0.2 * rng.random(), float(rng.choice([20.0, 50.0, 100.0]))))
  # a second pair of wakers on the y = 0.6 line hitting a lone sleeper, reversed roles
  bodies2 = [("vl", x0, 0.1, float(rng.choice([20.0, 50.0]))), ("t0", 0.0, 40.0, 0.0), ("vr", 2 * R + 0.5, 0.1, 0.0)]
  xml = [f'<mujoco><option gravity="0 0 0" timestep="{DT}"/><worldbody>']
  for y, bl in ((0.0, bodies), (0.6, bodies2)):
    for n, x, mass, damp in bl:
      xml.append(
        f'<body name="{n}" pos="{x:.6f} {y} 0"><joint name="j_{n}" type="slide" axis="1 0 0" damping="{damp * mass:.5f}"/>'
        f'<geom type="sphere" size="{R}" mass="{mass:.4f}" margin="{MARGIN}" condim="{int(rng.choice([1, 3]))}"/></body>'
      )
  xml.append("</worldbody>")
  if ncycle > 1:
    xml.append("<equality>")
    for k in range(ncycle - 1):
      xml.append(f'<joint joint1="j_s{k}" joint2="j_s{k + 1}" polycoef="0 1 0 0 0"/>')
    xml.append("</equality>")
  xml.append("</mujoco>")
  xml = "".join(xml)
  mjm = mujoco.MjModel.from_xml_string(xml)
  mjm.opt.enableflags |= int(mujoco.mjtEnableBit.mjENBL_SLEEP)
  mjm.opt.sleep_tolerance = tol
  return xml, mjm, {"tol": tol, "ncycle": ncycle, "x_left": x0, "x_right": x1, "xs": xs}


def states(mjm, rng, nworld, lay):
  """Per-world initial states: the wakers' start offsets and speeds are drawn so that they reach the contact margin
  of the sleepers between steps 13 and 24 (the sleepers fall asleep after ~10 steps)."""
  out = []
  nq = mjm.nq
  name2adr = {mujoco.mj_id2name(mjm, mujoco.mjtObj.mjOBJ_JOINT, j): int(mjm.jnt_qposadr[j]) for j in range(mjm.njnt)}
  damp = {n: float(mjm.dof_damping[mjm.jnt_dofadr[mujoco.mj_name2id(mjm, mujoco.mjtObj.mjOBJ_JOINT, n)]]) for n in name2adr}
  mass = {n: float(mjm.body_mass[mjm.jnt_bodyid[mujoco.mj_name2id(mjm, mujoco.mjtObj.mjOBJ_JOINT, n)]]) for n in name2adr}
  free = 0.5 - 2 * MARGIN  # distance a waker travels before its geom enters the (summed) margin of its target
  for w in range(nworld):
    qpos = np.zeros(nq, np.float64)
    qvel = np.zeros(mjm.nv, np.float64)
    for n, sign in (("j_wl", +1), ("j_wr", -1), ("j_vl", +1), ("j_vr", -1)):
      k = float(rng.uniform(13, 24))  # arrival step
      c = damp[n] / mass[n]
      if c > 0:
        # decelerating waker: drops below the tolerance j (1..9) steps before arriving, so it is still counting down
        # (not yet asleep) when it touches the sleeper; v_n = v0 / (1 + dt c)^n
        j = float(rng.uniform(0.5, 9.5))
        vend = float(mjm.opt.sleep_tolerance) * (1 + DT * c) ** (-j)
        v0 = vend * (1 + DT * c) ** k
        travelled = sum(v0 / (1 + DT * c) ** (i + 1) * DT for i in range(int(k))) + (k - int(k)) * vend * DT
      else:
        v0 = float(rng.uniform(0.8, 3.0))
        travelled = v0 * DT * k
      # start so that 'travelled' brings the geom exactly to the margin
      qpos[name2adr[n]] = sign * (free - travelled)
      qvel[name2adr[n]] = sign * v0
    out.append(
      {
        "qpos": qpos.astype(np.float32),
        "qvel": qvel.astype(np.float32),
        "act": np.zeros(mjm.na, np.float32),
        "ctrl": np.zeros(mjm.nu, np.float32),
        "mocap_pos": np.zeros((mjm.nmocap, 3), np.float32),
        "mocap_quat": np.tile(np.array([1, 0, 0, 0], np.float32), (mjm.nmocap, 1)),
        "qfrc_applied": np.zeros(mjm.nv, np.float32),
        "xfrc_applied": np.zeros((mjm.nbody, 6), np.float32),
        "eq_active": np.array(mjm.eq_active0, dtype=bool),
        "time": np.float32(0),
      }
    )
  return out
