"""C05 Constraint assembly agrees with MuJoCo C.

Differential monitor: after mjw.forward() on generated constraint scenes, every world's constraint rows (type, object id,
sub-row) are matched as a multiset with the rows MuJoCo builds (mj_fwdPosition + mj_fwdVelocity) for the same float32
state; J (dense), pos, margin, D, aref, frictionloss and vel of matched rows are judged with a per-case noise floor
(MuJoCo re-run on +-2 ulp perturbed inputs); ne/nf/nl/nefc, the equality|friction|limit|contact grouping, the CSR
structure and the contact efc_address blocks are checked exactly.

Assembly is isolated from collision detection: MJWarp's contact dist/pos/frame are written over MuJoCo's matched contacts
and mj_makeConstraint is re-run, so narrow-phase differences (ellipsoids differ by 1e-3..1e-2 between the engines, C04's
subject) cannot leak into the row comparison; contact parameters (friction, solref, solimp, margins, adhesion) stay MuJoCo's.
Two directed corner cases (limits active on both sides + zero-Jacobian tendon; connect/weld on a jointless body under the
sparse Jacobian) are always part of the case list so that the corresponding findings reproduce deterministically.
"""

import mujoco
import numpy as np

from mon import cmp, core, gen, mw
from mon.props import _efc as E

ID = "C05"
LEVEL = "exploration"
RULE = (
  "case=(profile,seed): generated tree with connect/weld (body and site)/joint/tendon equalities (active or not, eq_active "
  "toggled per world), dof and tendon frictionloss, hinge/slide/ball/tendon limits (states inside, at and beyond range), "
  "contacts of condim 1/3/4/6 between sphere/capsule/ellipsoid/plane (+box/cylinder partners in 1/4 of the cases), margins, "
  "gaps, pairs, adhesion; pyramidal/elliptic; Newton/CG; dense/sparse/auto; REFSAFE on/off; 4 worlds per model with "
  "different random qpos/qvel. Non-trivial: >=1 world with >=3 matched rows; distinct by hash(xml, qpos of all worlds)."
)
ASSUMPTIONS = [
  "MuJoCo 3.13 C (float64) mj_fwdPosition+mj_fwdVelocity on the same float32-representable state is the reference",
  "rows are matched as multisets keyed by (type, object id, sub-row); contacts are paired per geom pair by nearest position "
  "(radius 3e-2) and MJWarp's dist/pos/frame are injected into MuJoCo's contact before mj_makeConstraint; a world whose "
  "contact multisets differ is not judged on contact rows and nefc (C04 owns that)",
  "per-field allowance a*max(1,|ref|) + 50*noise, noise = spread of MuJoCo's own row under +-2ulp input perturbation; "
  "D additionally gets a/(1-imp) because 1-imp cancels in float32; counts are judged only if stable under the probe",
  "worlds whose nefc exceeds njmax (capacity bucket) are skipped: silent truncation is C16's subject",
]
BUDGET = {"quick": 300, "thorough": 1500}

ALLOW = {"J": 1e-5, "pos": 1e-5, "margin": 1e-6, "D": 2e-5, "aref": 2e-5, "frictionloss": 1e-6, "vel": 1e-5}
FIELDS = ("J", "pos", "margin", "D", "aref", "frictionloss", "vel")

BASE = dict(
  nbody=(3, 8),
  collide=True,
  contact_rich=True,
  p_plane=0.7,
  equality=4,
  p_limit=0.5,
  p_frictionloss=0.35,
  tendon_fixed=0.5,
  tendon_spatial=0.4,
  condims=(1, 3, 4, 6),
  cones=("pyramidal", "elliptic"),
  solvers=("Newton", "CG"),
  jacobians=("dense", "sparse", "auto"),
  p_margin=0.3,
  p_pair=0.3,
  p_mocap=0.1,
  flags_disable=("refsafe",),
  p_adhesion=0.15,
  p_surfacevel=0.3,  # geom surface velocity enters the reference velocity of contact rows (extras stream)
  p_soledge=0.35,  # solver parameters at their edges (zero width, dmin == dmax, mid 0/1, power 0.5..6, direct solref)
)
PROFILE_U = gen.profile(geoms=("sphere", "capsule", "ellipsoid"), **BASE)
PROFILE_X = gen.profile(geoms=("sphere", "capsule", "ellipsoid", "box", "cylinder"), **BASE)

NJMAX = (64, 160, 320)
ZERO_SIG = "row_with_all_zero_jacobian_emitted(mujoco_skips_it)"
MATCH_TOL = 3e-2  # pairing radius for contacts of one geom pair (geometry itself is injected, not compared)


def cases(tier, seed):
  n = 110 if tier == "quick" else 2600
  out = []
  for i in range(n):
    out.append({"id": f"gen{seed}_{i}", "seed": seed * 100000 + i, "mixed": int(i % 4 == 3), "big": 40 if i % 29 == 7 else 0, "weight": 3 if i % 29 == 7 else 1})
  out.append({"id": f"limit2_{seed}", "seed": seed, "directed": "corner_limit_both_sides+zero_jacobian_tendon"})
  out.append({"id": f"weldbody_{seed}", "seed": seed, "directed": "sparse_connect_weld_on_jointless_body"})
  return out


LIMIT2_XML = """<mujoco><option timestep="0.002"/><worldbody>
<body pos="0 0 1"><joint name="h" type="hinge" axis="0 1 0" limited="true" range="-0.05 0.05" margin="0.2"/>
<geom type="capsule" size="0.03" fromto="0 0 0 0.3 0 0" contype="0" conaffinity="0"/>
<body pos="0.3 0 0"><joint name="s" type="slide" axis="1 0 0" limited="true" range="-0.02 0.02" margin="0.1"/>
<geom size="0.05" contype="0" conaffinity="0"/><site name="s1" pos="0.1 0 0"/></body></body>
<site name="s0" pos="0 0 1.2"/><site name="s0b" pos="0.3 0 1.2"/></worldbody>
<tendon><spatial name="t" limited="true" range="0.3 0.5" margin="0.3"><site site="s0"/><site site="s1"/></spatial>
<spatial name="tz" frictionloss="0.5"><site site="s0"/><site site="s0b"/></spatial></tendon>
</mujoco>"""


WELDBODY_XML = """<mujoco><option timestep="0.002" jacobian="sparse"/><worldbody>
<body name="a" pos="0 0 1"><joint type="hinge" axis="0 1 0"/><joint type="hinge" axis="1 0 0"/>
<geom type="capsule" size="0.03" fromto="0 0 0 0.3 0 0" contype="0" conaffinity="0"/>
<body name="a_fixed" pos="0.3 0 0"><geom type="box" size="0.05 0.2 0.02" mass="3" contype="0" conaffinity="0"/></body></body>
<body name="b" pos="0.6 0 1"><joint type="ball"/><geom size="0.05" contype="0" conaffinity="0"/>
<body name="b_fixed" pos="0 0.2 0"><geom type="capsule" size="0.02 0.2" mass="0.5" contype="0" conaffinity="0"/></body></body>
</worldbody><equality><connect body1="a_fixed" anchor="0.05 0 0"/><weld body1="b_fixed" body2="a_fixed"/></equality></mujoco>"""


def mj_eval(mjm, st, inject=None):
  """MuJoCo rows for the state. inject=(geom, pos, dist, frame) of MJWarp's constraint contacts: their geometry is
  written over MuJoCo's matched contacts before mj_makeConstraint, which isolates assembly from collision detection
  (narrow-phase differences are C04's subject). Returns (mjd, cmap, cok)."""
  mjd = mujoco.MjData(mjm)
  mw.apply_state_mj(mjm, mjd, st)
  mujoco.mj_fwdPosition(mjm, mjd)
  cmap, cok = None, True
  if inject is not None:
    g, p, dist, frame = inject
    rc = E.mj_contacts(mjd)
    cmap, cok = E.match_contacts(g, p, rc["geom"], rc["pos"], tol=MATCH_TOL)
    if cok and len(g):
      for i in range(len(g)):
        c = mjd.contact[int(cmap[i])]
        c.dist = float(dist[i])
        c.pos[:] = np.asarray(p[i], dtype=np.float64)
        c.frame[:] = np.asarray(frame[i], dtype=np.float64).reshape(9)
      mujoco.mj_makeConstraint(mjm, mjd)
  mujoco.mj_fwdVelocity(mjm, mjd)
  return mjd, cmap, cok


def keyed_rows(rows, ctrans):
  """key -> row index. ctrans maps the engine's contact id to a canonical id (or None when unmatched)."""
  keys = {}
  seen = {}
  for i in range(rows["nefc"]):
    t, oid = int(rows["type"][i]), int(rows["id"][i])
    if t >= E.T_CFL:
      c = ctrans.get(oid)
      obj = ("c", c) if c is not None else ("u", oid)
    else:
      obj = ("o", oid)
    k = seen.get((t, obj), 0)
    seen[(t, obj)] = k + 1
    keys[(t, obj, k)] = i
  return keys


def group_order_ok(rows):
  """equality | friction | limit | contact grouping with counts ne, nf, nl."""
  t = np.asarray(rows["type"], dtype=int)
  ne, nf, nl, n = rows["ne"], rows["nf"], rows["nl"], rows["nefc"]
  if ne + nf + nl > n:
    return False
  g = np.where(t == E.T_EQ, 0, np.where(t <= E.T_FTEN, 1, np.where(t <= E.T_LTEN, 2, 3)))
  want = np.concatenate([np.zeros(ne), np.ones(nf), np.full(nl, 2), np.full(n - ne - nf - nl, 3)]).astype(int)
  return bool(np.array_equal(g, want))


def run_case(case):
  import mujoco_warp as mjw

  rec = core.Rec(case)
  rng = np.random.default_rng(case["seed"] + 17)
  directed = case.get("directed")
  if directed:
    xml = LIMIT2_XML if directed.startswith("corner") else WELDBODY_XML
    mjm = mujoco.MjModel.from_xml_string(xml)
    feat = ["directed:" + directed]
  else:
    P = dict(PROFILE_X if case["mixed"] else PROFILE_U)
    if case["big"]:
      P["big_tree"] = case["big"]
      P["nbody"] = (2, 4)
    xml, mjm, feat, _ = gen.make_model(case["seed"], P)
    if mjm is None:
      rec.rejected = "mujoco compile"
      return rec.result()
  try:
    m = mw.put_model(mjm)
  except (NotImplementedError, ValueError) as e:
    rec.rejected = f"put_model: {e}"[:200]
    rec.count("rejected_put_model")
    return rec.result()
  nworld = 4
  states = []
  for w in range(nworld):
    st = gen.sample_state(mjm, rng, vel=float(rng.choice([0.0, 0.3, 2.0])) if w else 1.0, quat_scale=(w % 2 == 0))
    if directed and directed.startswith("corner"):
      st["qpos"] = (rng.uniform(-0.04, 0.04, size=mjm.nq) * np.array([1.0, 0.4])).astype(np.float32)
    states.append(st)
  # capacity bucket from MuJoCo's own need (bounded set of kernel specialisations)
  try:
    base = [mj_eval(mjm, st)[0] for st in states]
  except mujoco.FatalError as e:
    # e.g. 'treeIterInit: contact is between two static bodies' (mocap geom touching a static geom): MuJoCo itself
    # cannot evaluate the state, so there is no reference
    rec.rejected = f"mujoco fatal error: {e}"[:160]
    rec.count("rejected_mujoco_fatal")
    return rec.result()
  need = max(int(b.nefc) for b in base)
  ncon_need = max(int(b.ncon) for b in base)
  njmax = next((c for c in NJMAX if c >= need + 8), None)
  if njmax is None:
    rec.rejected = f"scene needs {need} rows (> {NJMAX[-1]})"
    rec.count("rejected_too_many_rows")
    return rec.result()
  d = mw.make_data(mjm, m, states, njmax=njmax, nconmax=max(48, 2 * ncon_need))
  mjw.forward(m, d)
  ovf = mw.overflow(d)
  adr_all = mw.npy(d.contact.efc_address)
  matched_rows_max = 0
  second = None  # lazily computed rows after a second forward() (mechanism classification only)
  for w in range(nworld):
    ctx = f"world {w}"
    if int(ovf[w]) & (E.OVF_NEFC | E.OVF_NNZ | E.OVF_CONTACT):
      rec.inconcl(f"capacity overflow bits {int(ovf[w])}")
      rec.count("worlds_overflow")
      continue
    rows = mw.efc_rows(mjm, m, d, w)
    con = mw.contacts(d, w)
    if rows["nefc_raw"] > d.njmax or con["nacon_raw"] > d.naconmax:
      rec.inconcl("capacity exceeded (nefc > njmax or nacon > naconmax)")
      rec.count("worlds_overflow")
      continue
    csel = np.nonzero((con["type"] & 1) > 0)[0]
    inject = (con["geom"][csel], con["pos"][csel], con["dist"][csel], con["frame"][csel])
    try:
      mjd, cmap, cok = mj_eval(mjm, states[w], inject)
    except mujoco.FatalError:
      rec.inconcl("mujoco fatal error with injected contacts")
      continue
    ref = E.mj_rows(mjm, mjd)
    rc = E.mj_contacts(mjd)
    jdot_scale = float(np.abs(mjd.cvel).max()) ** 2 * (1.0 + float(mjm.stat.extent)) if mjm.nbody > 1 else 0.0
    # ---- conditioning probe (same injected contact geometry, inputs perturbed by +-2 ulp)
    prng = np.random.default_rng(case["seed"] * 7 + w)
    probes = []
    stable = True
    for _ in range(3):
      try:
        pd, pmap, pok = mj_eval(mjm, cmp.perturb_state(states[w], prng), inject)
      except mujoco.FatalError:
        stable = False
        continue
      pr = E.mj_rows(mjm, pd)
      if pok != cok or (pr["ne"], pr["nf"], pr["nl"], pr["nefc"]) != (ref["ne"], ref["nf"], ref["nl"], ref["nefc"]) or (cok and not np.array_equal(pmap, cmap)):
        stable = False
      probes.append((pr, keyed_rows(pr, {i: i for i in range(int(pd.ncon))})))
    wtrans = {int(con["slot"][csel[i]]): (int(cmap[i]) if (cok and cmap[i] >= 0) else None) for i in range(len(csel))}
    if cok and len(csel):
      gd = np.abs(np.asarray(con["pos"][csel], dtype=np.float64) - rc["pos"][cmap]).max() if len(csel) else 0.0
      rec.worst("info:contact_pos_distance_before_injection/1e-3", float(gd) / 1e-3)
    rkeys = keyed_rows(ref, {i: i for i in range(len(rc["dist"]))})
    wkeys = keyed_rows(rows, wtrans)
    rec.cover("worlds", 1)
    if not stable:
      rec.count("worlds_structure_unstable_under_ulp_probe")
    if not cok:
      rec.count("worlds_contact_sets_differ(ungated)")
    # ---- grouping and counts
    rec.check()
    if not rows["J_ok"]:
      rec.viol("efc.J:sparse_structure", f"CSR row address/length/column out of range {ctx}")
    if not group_order_ok(rows):
      rec.viol("row_grouping", f"rows are not grouped equality|friction|limit|contact with counts ne={rows['ne']} nf={rows['nf']} nl={rows['nl']} nefc={rows['nefc']}: types {rows['type'].tolist()} {ctx}")
    if stable:
      for k in ("ne", "nf", "nl"):
        rec.check()
        if rows[k] != ref[k]:
          sig = k
          if k == "nl":
            # mechanism: MuJoCo emits one row per violated side of a limit, MJWarp one row per joint/tendon
            two = [key for key in rkeys if key[0] in (E.T_LJNT, E.T_LTEN) and key[2] == 1]
            objs_r = {(key[0], key[1]) for key in rkeys if key[0] in (E.T_LJNT, E.T_LTEN)}
            objs_w = {(key[0], key[1]) for key in wkeys if key[0] in (E.T_LJNT, E.T_LTEN)}
            one_each = all(key[2] == 0 for key in wkeys if key[0] in (E.T_LJNT, E.T_LTEN))
            if two and rows[k] == ref[k] - len(two) and objs_r == objs_w and one_each:
              sig = "nl:limit_active_on_both_sides"
          grp = {"ne": (E.T_EQ,), "nf": (E.T_FDOF, E.T_FTEN), "nl": (E.T_LJNT, E.T_LTEN)}[k]
          zero = [key for key, ii in wkeys.items() if key[0] in grp and key not in rkeys and not np.any(rows["J"][ii])]
          if zero and rows[k] - ref[k] == len(zero):
            sig = ZERO_SIG
          rec.viol(sig, f"{k}: mjwarp {rows[k]} vs mujoco {ref[k]} {ctx}", keys_missing=[str(x) for x in rkeys if x not in wkeys][:6], keys_extra=[str(x) for x in wkeys if x not in rkeys][:6])
      rec.check()
      if cok and rows["nefc_raw"] != ref["nefc"] and (rows["ne"], rows["nf"], rows["nl"]) == (ref["ne"], ref["nf"], ref["nl"]):
        zero = [key for key, ii in wkeys.items() if key[0] >= E.T_CFL and key not in rkeys and not np.any(rows["J"][ii])]
        if zero and rows["nefc_raw"] - ref["nefc"] == len(zero):
          rec.viol(ZERO_SIG, f"nefc: mjwarp {rows['nefc_raw']} vs mujoco {ref['nefc']}: the {len(zero)} extra rows belong to contacts between bodies without dofs (Jacobian identically zero, MuJoCo marks them exclude=3 and emits nothing) {ctx}", keys_extra=[str(x) for x in zero][:6])
        else:
          rec.viol("nefc", f"nefc: mjwarp {rows['nefc_raw']} vs mujoco {ref['nefc']} with identical contact sets {ctx}")
    else:
      rec.inconcl("row structure unstable under ulp probe")
    # ---- multiset membership
    if stable:
      rec.check()
      for key in wkeys:
        if key[1][0] == "u" or (key[1][0] == "c" and not cok):
          continue
        if key not in rkeys and not (key[0] in (E.T_LJNT, E.T_LTEN)):
          if not np.any(rows["J"][wkeys[key]]):
            rec.viol(ZERO_SIG, f"mjwarp emits row {key} ({E.TYPE_NAME[key[0]]}) whose Jacobian is identically zero; MuJoCo skips such rows {ctx}")
          else:
            rec.viol(f"row_without_partner:{E.TYPE_NAME[key[0]]}", f"mjwarp row {key} has no partner in MuJoCo {ctx}")
      for key in rkeys:
        if key[1][0] == "c" and not cok:
          continue
        if key not in wkeys and not (key[0] in (E.T_LJNT, E.T_LTEN)):
          rec.viol(f"row_missing:{E.TYPE_NAME[key[0]]}", f"MuJoCo row {key} has no partner in mjwarp {ctx}")
    # ---- field comparison of matched rows
    nmatch = 0
    worst = {}
    for key, i in wkeys.items():
      j = rkeys.get(key)
      if j is None:
        continue
      t = key[0]
      if t in (E.T_LJNT, E.T_LTEN):
        # a limit row is matched by side as well (sign of its Jacobian): MuJoCo may carry both sides
        cands = [jj for kk, jj in rkeys.items() if kk[0] == t and kk[1] == key[1]]
        j = min(cands, key=lambda jj: float(np.abs(ref["J"][jj] - rows["J"][i]).max()))
      nmatch += 1
      rec.cover("rows:" + E.TYPE_NAME[t], 1)
      for f in FIELDS:
        g = np.asarray(rows[f][i], dtype=np.float64)
        r = np.asarray(ref[f][j], dtype=np.float64)
        noise = 0.0
        for pr, pk in probes:
          pj = pk.get(key)
          if pj is None:
            noise = np.inf
            break
          noise = max(noise, float(np.abs(np.asarray(pr[f][pj], dtype=np.float64) - r).max()))
        scale = max(1.0, float(np.abs(r).max()))
        if f == "aref":
          scale = max(scale, float(ref["aref_terms"][j]))  # aref is a difference of terms that may be far larger
          if key[0] == E.T_EQ and int(mjm.eq_type[key[1][1]]) in (int(mujoco.mjtEq.mjEQ_CONNECT), int(mujoco.mjtEq.mjEQ_WELD)):
            # connect/weld subtract (Jdot_1 - Jdot_2).qvel, a difference of velocity-quadratic terms of both bodies
            # and share quaternion/vector intermediates across the block, so round-off carries the block's magnitude
            blk = (ref["type"] == E.T_EQ) & (ref["id"] == key[1][1])
            scale = max(scale, jdot_scale, float(np.abs(ref["aref"][blk]).max()), float(ref["aref_terms"][blk].max()))
        a = ALLOW[f]
        if f == "D":
          a = a * (1.0 + 1.0 / max(1e-4, 1.0 - float(ref["imp"][j])))
        rec.check()
        if not np.all(np.isfinite(g)):
          rec.viol(f"efc.{f}:nonfinite", f"efc.{f} of row {key} not finite {ctx}")
          continue
        if not np.isfinite(noise) or noise > 1e-3 * scale:
          rec.count("illcond_fields")
          continue
        err = float(np.abs(g - r).max())
        ratio = err / (a * scale + cmp.C_NOISE * noise)
        fk = f"{f}:{E.TYPE_NAME[t]}"
        if ratio > worst.get(fk, (-1,))[0]:
          worst[fk] = (ratio, key, i, j, err, scale, noise)
    for fk, (ratio, key, i, j, err, scale, noise) in worst.items():
      rec.worst(fk, ratio)
      if ratio > cmp.VIOL_FACTOR:
        f, tname = fk.split(":")
        sig = f"efc.{f}:{tname}"
        extra = ""
        if f == "aref" and key[0] == E.T_EQ and int(mjm.eq_type[key[1][1]]) in (int(mujoco.mjtEq.mjEQ_CONNECT), int(mujoco.mjtEq.mjEQ_WELD)):
          # mechanism classification: does a second forward() on the same Data (velocity-stage fields now fresh) agree?
          if second is None:
            mjw.forward(m, d)
            second = [mw.efc_rows(mjm, m, d, ww) for ww in range(nworld)]
          r2 = second[w]
          i2 = [ii for ii in range(r2["nefc"]) if int(r2["type"][ii]) == E.T_EQ and int(r2["id"][ii]) == key[1][1]]
          if len(i2) > key[2]:
            e2 = abs(float(r2["aref"][i2[key[2]]]) - float(ref["aref"][j]))
            if e2 <= 0.1 * err:
              sig = "efc.aref:connect_weld:stale_velocity_fields_on_first_call"
              extra = f"; after a second forward() on the same Data the error drops to {e2:.3g} (make_constraint reads cvel/cdof_dot/subtree_linvel before fwd_velocity refreshed them)"
        if f == "D" and key[0] == E.T_EQ and m.is_sparse and int(mjm.eq_type[key[1][1]]) in (int(mujoco.mjtEq.mjEQ_CONNECT), int(mujoco.mjtEq.mjEQ_WELD)):
          # mechanism: the sparse branch overwrites body1/body2 with body_weldid[...] and then reads body_invweight0 of
          # those weld parents. D ~ 1/invweight, so D_mjwarp/D_mujoco must equal invweight(body)/invweight(weld parent).
          want = E.weldparent_invweight_ratio(mjm, key[1][1], key[2])
          if want is not None and abs(float(rows["D"][i]) / float(ref["D"][j]) - want) <= 1e-3 * want:
            sig = "efc.D:connect_weld:sparse_path_uses_invweight0_of_weld_parent"
            extra = f"; D ratio {float(rows['D'][i]) / float(ref['D'][j]):.5g} equals invweight0(constrained bodies)/invweight0(their body_weldid) = {want:.5g}"
        im = [float(con["includemargin"][li]) for li in csel if int(con["slot"][li]) == int(rows["id"][i])]
        if (
          f in ("pos", "margin")
          and key[0] == E.T_CELL
          and key[2] > 0
          and float(ref["pos"][j]) == 0.0
          and float(ref["margin"][j]) == 0.0
          and im
          and abs(float(rows["pos"][i]) - im[0]) <= 1e-7
          and abs(float(rows["margin"][i]) - im[0]) <= 1e-7
        ):
          sig = "efc.pos+margin:contact_elliptic:friction_rows_carry_includemargin(mujoco:0)"
          extra = "; MuJoCo stores pos=margin=0 on the friction rows of an elliptic contact, MJWarp stores includemargin in both"
        rec.viol(
          sig,
          f"efc.{f} of row {key} ({tname}): |mjwarp-mujoco|={err:.4g} is {ratio:.3g}x the bound (scale {scale:.3g}, noise {noise:.2g}) {ctx}{extra}",
          got=np.asarray(rows[f][i]).ravel()[:8],
          ref=np.asarray(ref[f][j]).ravel()[:8],
        )
      elif ratio > 1:
        rec.inconcl(f"{fk}: between bound and violation line")
        rec.count("grey_zone_fields")
    matched_rows_max = max(matched_rows_max, nmatch)
    # ---- contact efc_address
    cone_ell = mjm.opt.cone == mujoco.mjtCone.mjCONE_ELLIPTIC
    for li in csel:
      slot = int(con["slot"][li])
      dim = int(con["dim"][li])
      ndim = dim if (cone_ell or dim == 1) else 2 * (dim - 1)
      adr = adr_all[slot]
      mine = [i for i in range(rows["nefc"]) if int(rows["type"][i]) >= E.T_CFL and int(rows["id"][i]) == slot]
      rec.check()
      if not mine:
        if np.any(adr[:ndim] >= 0):
          rec.viol("efc_address:points_nowhere", f"contact slot {slot} has no rows but efc_address={adr[:ndim].tolist()} {ctx}")
        rec.cover("contacts_inactive", 1)
        continue
      want_t = E.T_CFL if dim == 1 else (E.T_CELL if cone_ell else E.T_CPYR)
      rec.cover(f"contacts_condim{dim}_{'elliptic' if cone_ell else 'pyramidal'}", 1)
      if con["geom"][li].min() >= 0:
        gt = sorted([int(mjm.geom_type[con["geom"][li][0]]), int(mjm.geom_type[con["geom"][li][1]])])
        rec.cover("contact_geom_pairs", f"{gt[0]}-{gt[1]}")
      if mine != list(range(mine[0], mine[0] + ndim)):
        rec.viol("contact_rows:not_a_consecutive_block", f"contact slot {slot} (condim {dim}) owns rows {mine}, expected {ndim} consecutive {ctx}")
      elif adr[:ndim].tolist() != mine:
        rec.viol("efc_address", f"contact slot {slot}: efc_address {adr[:ndim].tolist()} but its rows are {mine} {ctx}")
      elif any(int(rows["type"][i]) != want_t for i in mine):
        rec.viol("contact_rows:type", f"contact slot {slot} condim {dim}: row types {[int(rows['type'][i]) for i in mine]} expected {want_t} {ctx}")
    rec.cover("sparse" if m.is_sparse else "dense", 1)
    rec.cover("solver:" + ("Newton" if mjm.opt.solver == mujoco.mjtSolver.mjSOL_NEWTON else "CG"), 1)
    if cok and len(csel):
      rec.cover("worlds_with_matched_contacts", 1)
  for f in feat:
    rec.cover("features", f)
  rec.cover("njmax_bucket", str(njmax))
  if matched_rows_max >= 3:
    rec.nontrivial(xml, *[s["qpos"] for s in states])
  rec.sample = {"model": f"generated seed {case['seed']}" if not directed else directed, "nv": mjm.nv, "neq": mjm.neq, "ntendon": mjm.ntendon, "ngeom": mjm.ngeom, "cone": int(mjm.opt.cone), "sparse": bool(m.is_sparse), "rows_world0": {k: int(mw.npy(getattr(d, k))[0]) for k in ("ne", "nf", "nl", "nefc")}, "njmax": njmax}
  return rec.result()


def requirements(agg, tier):
  unmet = []
  cov = agg["cover"]
  for t in E.TYPE_NAME:
    need = 20 if tier == "quick" else 200
    if cov.get("rows:" + t, 0) < need:
      unmet.append(f"fewer than {need} matched rows of type {t} ({cov.get('rows:' + t, 0)})")
  for cone in ("pyramidal", "elliptic"):
    for dim in (1, 3, 4, 6):
      if cov.get(f"contacts_condim{dim}_{cone}", 0) < 3:
        unmet.append(f"fewer than 3 active contacts of condim {dim} under {cone}")
  for k in ("sparse", "dense", "solver:Newton", "solver:CG", "worlds_with_matched_contacts"):
    if cov.get(k, 0) < 10:
      unmet.append(f"fewer than 10 worlds with {k}")
  feats = set(cov.get("features", []))
  for f in ["eq:connect", "eq:connect_site", "eq:weld", "eq:weld_site", "eq:joint", "eq:tendon", "frictionloss:dof", "frictionloss:tendon", "limit:hinge", "limit:slide", "limit:ball", "limit:tendon", "disable:refsafe", "adhesion"]:
    if f not in feats:
      unmet.append(f"feature never generated: {f}")
  if agg["distinct"] < 40:
    unmet.append("fewer than 40 distinct non-trivial cases")
  return unmet
