"""C31 Host/device conversion is faithful; unsupported features are rejected.

Three monitors on the public conversion API: (model) every field of the Model returned by put_model that has an MjModel
namesake equals it (float32 image, optional leading batch dimension of 1), plus Option / Statistic namesakes;
(data) an MjData carrying contacts and constraint rows (mj_forward / a few mj_steps on colliding, constrained scenes) is
moved by put_data(nworld=1..3) and read back per world by get_data_into into a blank MjData: every field get_data_into
represents must come back as the float32 image of the source, contacts and efc rows in MuJoCo's order; (reject) a
catalogue of features MuJoCo accepts and MJWarp documents / enumerates as unsupported must make put_model raise.
"""

import dataclasses
import os

import mujoco
import numpy as np

from mon import core, gen, mw
from mon.props import _state as S

ID = "C31"
LEVEL = "exploration"
RULE = (
  "case kinds: model=(generated model over kinematic/dynamic/actuation/collision/constraint/sensor feature profiles, or a "
  "repository test model): all ~360 Model fields with an MjModel namesake compared; data=(such a model, random state, 0-3 "
  "mj_steps + mj_forward, dense or sparse Jacobian, nworld 1-3): ~110 MjData fields + contact struct + efc rows compared for "
  "every world; reject=(one unsupported feature injected into an otherwise accepted model). Non-trivial: model has >=3 dofs; "
  "data cases additionally need ncon+nefc>0; distinct by hash(xml, state)."
)
ASSUMPTIONS = [
  "a field is 'represented' if get_data_into assigns it; recomputed factors (qLD, qLDiagInv) must equal the float32 image of the source or MuJoCo's factorisation of the float32 M (1e-6)",
  "documented differences not reported: opt.tolerance is clamped to >=1e-6; solver_niter is a scalar per world (MjData has one per island)",
  "unsupported catalogue = README 'MuJoCo API Compatibility' list + every MuJoCo enum value absent from mujoco_warp.types enums + "
  "the explicit checks at the top of io.put_model (dense nv>60, sleep with CG, noslip, plugins, flex internal/quadratic)",
]
BUDGET = {"quick": 150, "thorough": 1200}

REPO_MODELS = [
  "humanoid/humanoid.xml",
  "pendula.xml",
  "constraints.xml",
  "collision.xml",
  "primitives.xml",
  "tendon/wrap.xml",
  "tendon/fixed.xml",
  "tendon/pulley_wrap.xml",
  "actuation/actuators.xml",
  "actuation/site.xml",
  "actuation/slidercrank.xml",
  "flex/floppy.xml",
  "hfield/hfield.xml",
]

PROFILES = {
  "kin": gen.profile(nbody=(3, 9), p_camlight=0.5, tendon_fixed=0.5, tendon_spatial=0.6, p_massless=0.2, p_mesh=0.15, p_limit=0.3, p_mocap=0.3, nuserdata=2, keyframes=0),
  "dyn": gen.profile(nbody=(2, 8), p_spring=0.5, p_damping=0.6, p_armature=0.5, p_gravcomp=0.4, fluid=0.5, tendon_fixed=0.4, actuators=3, act_kinds=("motor", "position", "velocity", "general", "intvelocity", "damper", "cylinder", "muscle", "dcmotor"), act_trn=("joint", "tendon", "site", "jointinparent", "slidercrank", "body"), delays=0.4, integrators=("Euler", "RK4", "implicit", "implicitfast")),
  "col": gen.profile(nbody=(3, 8), collide=True, contact_rich=True, p_plane=0.8, p_mesh=0.15, p_hfield=0.2, condims=(1, 3, 4, 6), p_margin=0.3, p_pair=0.3, p_exclude=0.2, p_priority=0.3, cones=("pyramidal", "elliptic"), jacobians=("dense", "sparse", "auto"), p_free=0.5),
  "con": gen.profile(nbody=(3, 8), collide=True, contact_rich=True, p_plane=0.7, equality=3, p_limit=0.5, p_frictionloss=0.4, tendon_fixed=0.5, tendon_spatial=0.3, cones=("pyramidal", "elliptic"), solvers=("Newton", "CG"), jacobians=("dense", "sparse"), actuators=2, sensors=4, sensor_kinds=("jointpos", "jointvel", "framepos", "framequat", "accelerometer", "touch", "actuatorfrc", "subtreecom", "clock"), delays=0.4, nuserdata=3, p_mocap=0.2),
}

# no collidable geoms: every constraint row is a limit / friction / equality row, so the default njmax_nnz estimate is not
# dominated by its contact term
PROFILES["nocol"] = gen.profile(nbody=(3, 9), collide=False, equality=2, p_limit=0.8, p_frictionloss=0.4, tendon_fixed=0.5, tendon_spatial=0.3, solvers=("Newton", "CG"), jacobians=("sparse", "dense", "sparse"), cones=("pyramidal", "elliptic"))

MODEL_SKIP = {}  # field -> reason (none needed on the observed tree)
OPT_SKIP = {"tolerance": "clamped to >= 1e-6 by put_model (documented)"}

DATA_FIELDS = (
  "ne nf nl nefc ncon time energy qpos qvel act qacc_warmstart ctrl qfrc_applied xfrc_applied eq_active mocap_pos mocap_quat qacc act_dot "
  "xpos xquat xmat xipos ximat xanchor xaxis geom_xpos geom_xmat site_xpos site_xmat cam_xpos cam_xmat light_xpos light_xdir subtree_com cdof cinert "
  "flexvert_xpos flexedge_length flexedge_velocity actuator_length moment_rownnz moment_rowadr moment_colind actuator_moment crb ten_velocity "
  "actuator_velocity cvel cdof_dot qfrc_bias qfrc_spring qfrc_damper qfrc_gravcomp qfrc_fluid qfrc_passive subtree_linvel subtree_angmom "
  "actuator_force qfrc_actuator qfrc_smooth qacc_smooth qfrc_constraint qfrc_inverse history userdata M efc_type efc_id efc_pos efc_margin efc_D "
  "efc_vel efc_aref efc_frictionloss efc_state efc_force cacc cfrc_int cfrc_ext ten_length ten_J ten_wrapadr ten_wrapnum wrap_obj wrap_xpos sensordata "
  "tree_asleep tree_awake body_awake"
).split()
APPROX = ("qLD", "qLDiagInv")
CONTACT_FIELDS = "dist pos frame includemargin friction solref solreffriction solimp dim geom efc_address".split()


def cases(tier, seed):
  out = []
  nm = 40 if tier == "quick" else 700
  nd = 70 if tier == "quick" else 1200
  profs = list(PROFILES)
  for i in range(nm):
    out.append({"id": f"model{seed}_{i}", "kind": "model", "profile": profs[i % 4], "seed": seed * 100000 + i})
  for k, p in enumerate(REPO_MODELS):
    out.append({"id": f"repomodel{seed}_{k}", "kind": "model", "path": p, "seed": seed * 100000 + 900 + k})
    for r in range(1 if tier == "quick" else 4):
      out.append({"id": f"repodata{seed}_{k}_{r}", "kind": "data", "path": p, "seed": seed * 100000 + 950 + 10 * k + r, "weight": 2})
  for i in range(nd):
    out.append({"id": f"data{seed}_{i}", "kind": "data", "profile": ("col", "con", "col", "con", "nocol")[i % 5], "seed": seed * 100000 + 2000 + i, "weight": 2})
  for i, name in enumerate(REJECTS):
    out.append({"id": f"reject{seed}_{name}", "kind": "reject", "feature": name, "seed": seed * 100000 + 5000 + i})
  return out


def _load(case, rec):
  if "path" in case:
    path = os.path.join(core.TEST_DATA, case["path"])
    if not os.path.exists(path):
      rec.rejected = "missing file"
      return None, None, None
    try:
      mjm = mujoco.MjModel.from_xml_path(path)
    except Exception as e:
      rec.rejected = f"mujoco compile: {e}"[:200]
      return None, None, None
    return case["path"], mjm, ["repo:" + case["path"]]
  xml, mjm, feat, s = gen.make_model(case["seed"], PROFILES[case["profile"]])
  if mjm is None:
    rec.rejected = "mujoco compile"
    return None, None, None
  return xml, mjm, feat


# ------------------------------------------------------------------------------------ model fields


def _eq_image(a, ref):
  """a (numpy from device) equals the device image of ref (float->float32, other dtypes by value); optional leading 1."""
  r = np.asarray(ref)
  if a.dtype.kind == "f":
    r = r.astype(np.float32)
  cands = [a]
  if a.ndim >= 1 and a.shape[0] == 1:
    cands.append(a[0])
  for c in cands:
    if c.size != r.size:
      continue
    try:
      c2 = c.reshape(r.shape)
    except Exception:
      continue
    if c2.dtype.kind == "f":
      if np.array_equal(c2, r, equal_nan=True):
        return True
    elif np.array_equal(c2.astype(np.int64), r.astype(np.int64)):
      return True
  return False


def _run_model(case, rec):
  import warp as wp
  from mujoco_warp._src import types

  xml, mjm, feat = _load(case, rec)
  if mjm is None:
    return
  try:
    m = mw.put_model(mjm)
  except (NotImplementedError, ValueError) as e:
    rec.rejected = f"put_model: {e}"[:200]
    rec.count("rejected_put_model")
    return
  n = 0
  for f in dataclasses.fields(types.Model):
    if not hasattr(mjm, f.name) or f.name in MODEL_SKIP:
      continue
    v = getattr(m, f.name)
    ref = getattr(mjm, f.name)
    if isinstance(v, wp.array):
      rec.check()
      n += 1
      if not _eq_image(v.numpy(), ref):
        a = v.numpy()
        rec.viol(f"put_model:field-differs:{f.name}", f"Model.{f.name} {a.shape} {a.dtype} != MjModel.{f.name} {np.asarray(ref).shape}: {a.ravel()[:5]} vs {np.asarray(ref).ravel()[:5]}")
    elif isinstance(v, (int, float, bool, np.integer, np.floating)) and not dataclasses.is_dataclass(ref):
      rec.check()
      n += 1
      if np.float32(v) != np.float32(ref):
        rec.viol(f"put_model:field-differs:{f.name}", f"Model.{f.name}={v} != MjModel.{f.name}={ref}")
  for f in dataclasses.fields(types.Option):
    if not hasattr(mjm.opt, f.name) or f.name in OPT_SKIP:
      continue
    v = getattr(m.opt, f.name)
    ref = getattr(mjm.opt, f.name)
    rec.check()
    n += 1
    a = v.numpy() if isinstance(v, wp.array) else np.asarray(v)
    if not _eq_image(np.asarray(a), np.asarray(ref)) and not (a.dtype.kind == "f" and np.allclose(np.asarray(a, np.float64).reshape(-1), np.asarray(ref, np.float64).reshape(-1), rtol=1e-6, atol=0)):
      rec.viol(f"put_model:opt-differs:{f.name}", f"Model.opt.{f.name}={a} != MjModel.opt.{f.name}={ref}")
  rec.check()
  if abs(float(m.opt.tolerance.numpy()[0]) - max(mjm.opt.tolerance, 1e-6)) > 1e-12:
    rec.viol("put_model:opt-differs:tolerance", f"opt.tolerance {m.opt.tolerance.numpy()} vs max({mjm.opt.tolerance},1e-6)")
  rec.check()
  if not _eq_image(m.stat.meaninertia.numpy(), np.array([mjm.stat.meaninertia])):
    rec.viol("put_model:stat-differs:meaninertia", f"{m.stat.meaninertia.numpy()} vs {mjm.stat.meaninertia}")
  for ft in feat or []:
    rec.cover("features", ft)
  rec.cover("model_fields_compared", n)
  rec.cover("models_converted", 1)
  if mjm.nv >= 3:
    rec.nontrivial("model", xml)
  rec.sample = {"kind": "model", "model": case.get("path", f"generated {case.get('profile')} seed {case['seed']}"), "nv": mjm.nv, "ngeom": mjm.ngeom, "fields_compared": n}


# ------------------------------------------------------------------------------------ data round trip


def _dense_J(mjm, mjd):
  J = np.zeros((mjd.nefc, mjm.nv))
  if mjd.nefc:
    if mujoco.mj_isSparse(mjm):
      mujoco.mju_sparse2dense(J, mjd.efc_J, mjd.efc_J_rownnz, mjd.efc_J_rowadr, mjd.efc_J_colind)
    else:
      J[:] = np.asarray(mjd.efc_J).reshape(-1)[: mjd.nefc * mjm.nv].reshape(mjd.nefc, mjm.nv)
  return J


def _f32eq(a, r):
  a = np.asarray(a)
  r = np.asarray(r)
  if a.shape != r.shape:
    return False, f"shape {a.shape} vs {r.shape}"
  if a.size == 0:
    return True, ""
  if a.dtype.kind in "iub" or r.dtype.kind in "iub":
    ok = np.array_equal(a.astype(np.int64), r.astype(np.int64))
    if ok:
      return True, ""
    i = int(np.argmax(a.ravel() != r.ravel()))
    return False, f"at {i}: {a.ravel()[i]} vs {r.ravel()[i]}"
  a32, r32 = a.astype(np.float32), r.astype(np.float32)
  if np.array_equal(a32, r32, equal_nan=True):
    return True, ""
  i = int(np.argmax(~((a32 == r32) | (np.isnan(a32) & np.isnan(r32))).ravel()))
  return False, f"at {i}: {a.ravel()[i]:.9g} vs {r.ravel()[i]:.9g}"


def _run_data(case, rec):
  import mujoco_warp as mjw

  rng = np.random.default_rng(case["seed"] + 5)
  xml, mjm, feat = _load(case, rec)
  if mjm is None:
    return
  try:
    m = mw.put_model(mjm)
  except (NotImplementedError, ValueError) as e:
    rec.rejected = f"put_model: {e}"[:200]
    rec.count("rejected_put_model")
    return
  mjd = mujoco.MjData(mjm)
  st = gen.sample_state(mjm, rng, vel=0.5, quat_scale=False)
  mw.apply_state_mj(mjm, mjd, st)
  nstep = int(rng.integers(0, 4))
  try:
    for _ in range(nstep):
      mujoco.mj_step(mjm, mjd)
    mujoco.mj_forward(mjm, mjd)
  except Exception as e:
    rec.rejected = f"mujoco forward: {e}"[:200]
    return
  if not (np.all(np.isfinite(mjd.qpos)) and np.all(np.isfinite(mjd.qacc))):
    rec.inconcl("MuJoCo state not finite")
    return
  nworld = int(rng.integers(1, 4))
  try:
    d = mjw.put_data(mjm, mjd, nworld=nworld)
  except NotImplementedError as e:
    rec.rejected = f"put_data: {e}"[:200]
    return
  except ValueError as e:
    # all capacities are put_data's own defaults here: a valid MjData must fit them
    rec.check()
    rec.viol("put_data:raises-with-default-capacities", f"put_data(mjm, mjd, nworld={nworld}) with default capacities raises ValueError: {e} (ncon {mjd.ncon} nefc {mjd.nefc} sparse {bool(m.is_sparse)})")
    return
  Jref = _dense_J(mjm, mjd)
  for w in range(nworld):
    res = mujoco.MjData(mjm)
    mjw.get_data_into(res, mjm, d, world_id=w)
    ctx = f"world {w} of {nworld} (ncon {mjd.ncon} nefc {mjd.nefc} sparse {bool(m.is_sparse)})"
    gap = bool(mjd.ncon and np.any(np.asarray(mjd.contact.efc_address)[: mjd.ncon] < 0))
    efc_bad = []  # (sig, message) of row-order dependent fields
    for f in DATA_FIELDS:
      rec.check()
      ok, why = _f32eq(getattr(res, f), getattr(mjd, f))
      if ok:
        continue
      if f == "efc_state" and not np.any(np.asarray(res.efc_state)) and np.any(np.asarray(mjd.efc_state)):
        rec.viol("put_data:efc_state-not-copied", f"put_data->get_data_into returns efc_state all zero, source has {np.asarray(mjd.efc_state)[:8]}...; {ctx}")
        rec.count("efc_state_lost")
      elif f.startswith("efc_"):
        efc_bad.append((f"roundtrip:field-differs:{f}", f"put_data->get_data_into: MjData.{f} {why}; {ctx}"))
      else:
        rec.viol(f"roundtrip:field-differs:{f}", f"put_data->get_data_into: MjData.{f} {why}; {ctx}")
    rec.check()
    if int(res.solver_niter[0]) != int(mjd.solver_niter[0]):
      rec.viol("roundtrip:field-differs:solver_niter", f"solver_niter[0] {res.solver_niter[0]} vs {mjd.solver_niter[0]}; {ctx}")
    # inertia factors: either the float32 image of the source factor (pure sparse layout: copied) or MuJoCo's own
    # factorisation of the float32 image of M (block layouts: get_data_into calls mj_factorM on the float32 M)
    import copy as _copy

    alt = _copy.copy(mjd)
    alt.M[:] = np.asarray(mjd.M, np.float32)
    mujoco.mj_factorM(mjm, alt)
    for f in APPROX:
      rec.check()
      a = np.asarray(getattr(res, f))
      ok = False
      for r in (np.asarray(getattr(mjd, f), np.float32).astype(np.float64), np.asarray(getattr(alt, f))):
        if a.shape == r.shape and (a.size == 0 or np.abs(a - r).max() <= 1e-6 * max(1.0, float(np.abs(r).max()))):
          ok = True
      if not ok:
        r = np.asarray(getattr(alt, f))
        rec.viol(f"roundtrip:field-differs:{f}", f"MjData.{f} differs by {np.abs(a - r).max() if a.shape == r.shape else 'shape'} from both the float32 image of the source and mj_factorM(float32 M); {ctx}")
    for f in CONTACT_FIELDS:
      rec.check()
      ok, why = _f32eq(getattr(res.contact, f), getattr(mjd.contact, f))
      if not ok:
        if f == "efc_address":
          efc_bad.append(("roundtrip:contact-differs:efc_address", f"contact.efc_address {np.asarray(res.contact.efc_address)[:8]} vs {np.asarray(mjd.contact.efc_address)[:8]}; {ctx}"))
        else:
          rec.viol(f"roundtrip:contact-differs:{f}", f"contact.{f} (MuJoCo order) {why}; {ctx}")
    rec.check()
    if res.nefc == mjd.nefc:
      ok, why = _f32eq(_dense_J(mjm, res), Jref)
      if not ok:
        efc_bad.append(("roundtrip:field-differs:efc_J", f"efc_J (densified, MuJoCo row order) {why}; {ctx}"))
    if efc_bad and gap:
      rec.viol(
        "get_data_into:contact-without-rows-corrupts-efc-order",
        f"source has contacts with efc_address=-1 (inside margin but beyond gap): {np.asarray(mjd.contact.efc_address)[: mjd.ncon][:10]}; get_data_into returns efc_address {np.asarray(res.contact.efc_address)[:10]} and shifted efc rows ({', '.join(x[0].split(':')[-1] for x in efc_bad)}); {ctx}",
      )
      rec.count("gap_contact_row_corruption")
    else:
      for sg, msg in efc_bad:
        rec.viol(sg, msg)
    if gap:
      rec.count("worlds_with_rowless_contacts")
    if mjd.nisland > 0:
      rec.check()
      if res.nisland != mjd.nisland:
        rec.viol("roundtrip:field-differs:nisland", f"nisland {res.nisland} vs {mjd.nisland}; {ctx}")
      rec.count("worlds_with_islands")
  for ft in feat or []:
    rec.cover("features", ft)
  rec.cover("data_worlds_compared", nworld)
  rec.cover("contacts_roundtripped", int(mjd.ncon) * nworld)
  rec.cover("efc_rows_roundtripped", int(mjd.nefc) * nworld)
  rec.cover("jacobian:" + ("sparse" if m.is_sparse else "dense"), 1)
  rec.cover("cone:" + ("elliptic" if mjm.opt.cone == mujoco.mjtCone.mjCONE_ELLIPTIC else "pyramidal"), 1)
  for t in np.unique(mjd.efc_type[: mjd.nefc]) if mjd.nefc else []:
    rec.cover("efc_types", mujoco.mjtConstraint(int(t)).name)
  if mjm.nv >= 3 and mjd.ncon + mjd.nefc > 0:
    rec.nontrivial("data", xml, st["qpos"], st["qvel"])
  rec.sample = {"kind": "data", "model": case.get("path", f"generated {case.get('profile')} seed {case['seed']}"), "nv": mjm.nv, "ncon": int(mjd.ncon), "nefc": int(mjd.nefc), "nworld": nworld, "mj_steps": nstep}


# ------------------------------------------------------------------------------------ unsupported catalogue

BASE = """
<mujoco>
  <option timestep="0.002"/>
  <worldbody>
    <geom name="floor" type="plane" size="0 0 1"/>
    <body name="a" pos="0 0 0.5"><joint name="j0" type="hinge" axis="0 1 0"/><geom name="ga" type="capsule" size="0.05 0.2"/>
      <site name="sa" pos="0 0 0.2"/>
      <body name="b" pos="0 0 0.4"><joint name="j1" type="slide" axis="1 0 0"/><geom name="gb" size="0.06"/><site name="sb"/></body>
    </body>
  </worldbody>
  <tendon><spatial name="t0"><site site="sa"/><site site="sb"/></spatial></tendon>
  <equality><joint name="e0" joint1="j0" joint2="j1"/></equality>
  <actuator><general name="act0" joint="j0" dyntype="filter" dynprm="0.1" gainprm="1" biastype="affine" biasprm="0 -1 0"/></actuator>
  <sensor><jointpos name="s0" joint="j0"/></sensor>
</mujoco>
"""


def _chain_xml(n):
  s = '<mujoco><option jacobian="dense"/><worldbody>'
  for i in range(n):
    s += f'<body pos="0.1 0 0"><joint type="hinge" axis="0 1 0"/><geom size="0.03" contype="0" conaffinity="0"/>'
  s += "</body>" * n
  return s + "</worldbody></mujoco>"


def _set(field, idx, value):
  def f(mjm):
    arr = getattr(mjm, field)
    arr[idx] = value

  return f


def _opt(name, value, orflag=False):
  def f(mjm):
    if orflag:
      setattr(mjm.opt, name, int(getattr(mjm.opt, name)) | int(value))
    else:
      setattr(mjm.opt, name, value)

  return f


def _both(*fs):
  def f(mjm):
    for g in fs:
      g(mjm)

  return f


E, D = mujoco.mjtEnableBit, mujoco.mjtDisableBit
REJECTS = {
  # README "MuJoCo API Compatibility"
  "solver:PGS": (BASE, _opt("solver", int(mujoco.mjtSolver.mjSOL_PGS))),
  "solver:noslip": (BASE, _opt("noslip_iterations", 3)),
  "sensor:plugin-type": (BASE, _set("sensor_type", 0, int(mujoco.mjtSensor.mjSENS_PLUGIN))),
  "sensor:plugin-instance": (BASE, _set("sensor_plugin", 0, 0)),
  "actuator:plugin-instance": (BASE, _set("actuator_plugin", 0, 0)),
  "body:plugin-instance": (BASE, _set("body_plugin", 1, 0)),
  # enum values missing from mujoco_warp.types
  "integrator:" + "DISCRETE": (BASE, _opt("integrator", int(getattr(mujoco.mjtIntegrator, "mjINT_DISCRETE", 99)))),
  "trntype:SO3": (BASE, _set("actuator_trntype", 0, int(getattr(mujoco.mjtTrn, "mjTRN_SO3", 99)))),
  "dyntype:PID": (BASE, _set("actuator_dyntype", 0, int(getattr(mujoco.mjtDyn, "mjDYN_PID", 99)))),
  "gaintype:SO3": (BASE, _set("actuator_gaintype", 0, int(getattr(mujoco.mjtGain, "mjGAIN_SO3", 99)))),
  "gaintype:PID": (BASE, _set("actuator_gaintype", 0, int(getattr(mujoco.mjtGain, "mjGAIN_PID", 99)))),
  "biastype:SO3": (BASE, _set("actuator_biastype", 0, int(getattr(mujoco.mjtBias, "mjBIAS_SO3", 99)))),
  "eqtype:DISTANCE": (BASE, _set("eq_type", 0, int(mujoco.mjtEq.mjEQ_DISTANCE))),
  "eqtype:FLEXVERT": (BASE, _set("eq_type", 0, int(getattr(mujoco.mjtEq, "mjEQ_FLEXVERT", 99)))),
  "geomtype:ARROW": (BASE, _set("geom_type", 2, int(mujoco.mjtGeom.mjGEOM_ARROW))),
  "wraptype:NONE": (BASE, _set("wrap_type", 0, int(mujoco.mjtWrap.mjWRAP_NONE))),
  "sleeppolicy:NEVER": (BASE, _set("tree_sleep_policy", 0, int(mujoco.mjtSleepPolicy.mjSLEEP_NEVER))),
  "sleeppolicy:ALLOWED": (BASE, _set("tree_sleep_policy", 0, int(mujoco.mjtSleepPolicy.mjSLEEP_ALLOWED))),
  "sleeppolicy:INIT": (BASE, _set("tree_sleep_policy", 0, int(mujoco.mjtSleepPolicy.mjSLEEP_INIT))),
  "disable:MIDPHASE": (BASE, _opt("disableflags", int(D.mjDSBL_MIDPHASE), True)),
  "disable:AUTORESET": (BASE, _opt("disableflags", int(D.mjDSBL_AUTORESET), True)),
  "enable:OVERRIDE": (BASE, _opt("enableflags", int(E.mjENBL_OVERRIDE), True)),
  "enable:FWDINV": (BASE, _opt("enableflags", int(E.mjENBL_FWDINV), True)),
  "enable:DIAGEXACT": (BASE, _opt("enableflags", int(getattr(E, "mjENBL_DIAGEXACT", 1 << 30)), True)),
  # explicit checks of put_model
  "dense:nv>60": (_chain_xml(61), None),
  "sleep+CG": (BASE, _both(_opt("enableflags", int(E.mjENBL_SLEEP), True), _opt("solver", int(mujoco.mjtSolver.mjSOL_CG)))),
  "flex:internal": ("path:flex/floppy.xml", _set("flex_internal", 0, 1)),
  "flex:quadratic-interp": ("path:flex/floppy.xml", _set("flex_interp", 0, 2)),
  "sleep+flex-equality": ("path:flex/rope.xml", _opt("enableflags", int(E.mjENBL_SLEEP), True)),
}
# controls: the unmodified base models must be accepted, otherwise a rejection proves nothing
CONTROLS = {"control:BASE": (BASE, None), "control:dense-nv60": (_chain_xml(60), None), "control:flex": ("path:flex/floppy.xml", None), "control:flex-equality": ("path:flex/rope.xml", None)}
REJECTS.update(CONTROLS)


def _run_reject(case, rec):
  name = case["feature"]
  src, mut = REJECTS[name]
  try:
    if src.startswith("path:"):
      mjm = mujoco.MjModel.from_xml_path(os.path.join(core.TEST_DATA, src[5:]))
    else:
      mjm = mujoco.MjModel.from_xml_string(src)
  except Exception as e:
    rec.rejected = f"mujoco compile: {e}"[:200]
    return
  if mut is not None:
    try:
      mut(mjm)
    except Exception as e:
      rec.inconcl(f"could not inject {name}: {e}"[:150])
      return
  rec.check()
  try:
    m = mw.put_model(mjm)
    accepted = True
  except (NotImplementedError, ValueError) as e:
    accepted = False
    msg = str(e)
  if name.startswith("control:"):
    if not accepted:
      rec.viol("put_model:control-model-rejected:" + name[8:], f"unmodified control model rejected: {msg[:200]}")
    else:
      rec.count("controls_accepted")
      rec.nontrivial("control", name)
  else:
    if accepted:
      rec.viol("put_model:unsupported-accepted:" + name, f"put_model returned a Model for a model using unsupported feature {name}")
      rec.count("unsupported_accepted")
    else:
      rec.count("unsupported_rejected")
      rec.cover("rejected_features", name)
      rec.nontrivial("reject", name)
  rec.sample = {"kind": "reject", "feature": name, "accepted": accepted}


def run_case(case):
  rec = core.Rec(case)
  {"model": _run_model, "data": _run_data, "reject": _run_reject}[case["kind"]](case, rec)
  return rec.result()


def requirements(agg, tier):
  unmet = []
  cov = agg["cover"]
  t = agg["tally"]
  if cov.get("models_converted", 0) < 30:
    unmet.append("fewer than 30 models converted and compared")
  if cov.get("model_fields_compared", 0) < 10000:
    unmet.append("fewer than 10000 Model fields compared")
  if cov.get("data_worlds_compared", 0) < 60:
    unmet.append("fewer than 60 worlds round-tripped")
  if cov.get("contacts_roundtripped", 0) < 200 or cov.get("efc_rows_roundtripped", 0) < 1000:
    unmet.append("too few contacts / efc rows in round-tripped data")
  for k in ("jacobian:sparse", "jacobian:dense", "cone:elliptic", "cone:pyramidal"):
    if cov.get(k, 0) < 3:
      unmet.append(f"{k} round-tripped fewer than 3 times")
  types_seen = set(cov.get("efc_types", []))
  for k in ("mjCNSTR_EQUALITY", "mjCNSTR_LIMIT_JOINT", "mjCNSTR_CONTACT_PYRAMIDAL", "mjCNSTR_CONTACT_ELLIPTIC", "mjCNSTR_FRICTION_DOF"):
    if k not in types_seen:
      unmet.append(f"constraint type never round-tripped: {k}")
  nrej = len(REJECTS) - len(CONTROLS)
  decided = len(cov.get("rejected_features", []))
  if decided + agg["tally"].get("unsupported_accepted", 0) < nrej:
    unmet.append(f"only {decided} of {nrej} unsupported-feature probes were decided")
  if t.get("controls_accepted", 0) < len(CONTROLS):
    unmet.append("a control model of the unsupported catalogue was not accepted")
  if agg["distinct"] < 50:
    unmet.append("fewer than 50 distinct non-trivial cases")
  return unmet
