"""C37 Pipeline stages compose consistently.

Metamorphic monitor (no reference engine), three oracles on the same generated model and batch of states:
  A  step1(); step2()  ==  step()   for Euler, implicitfast and implicit, compared after every step of a short trajectory
     with the first-divergence rule (bit-equal / round-off <=1e-4 / violated >=1e-2); RK4 is excluded (step2 documents
     that it falls back to Euler).
  B  forward() leaves the integration state bit-identical (time qpos qvel act qacc_warmstart ctrl qfrc_applied
     xfrc_applied eq_active mocap_pos mocap_quat userdata), incl. unnormalised quaternions.
  C  a second forward() reproduces every per-world Data field, the constraint rows and the contact set of the first.
"""

import mujoco
import numpy as np

from mon import cmp, core, gen, mw
from mon.props import _step

ID = "C37"
LEVEL = "exploration"
RULE = (
  "case=(kind,seed,integrator): generated tree (free/ball/hinge/slide, springs, dampers, tendons, actuators with activation "
  "dynamics, sensors incl. acceleration-stage ones; 'soft' adds limits/equalities/frictionloss; 'contact' = free bodies on a "
  "plane with collisions on) or a repository model; 3 worlds with different random states and non-zero warmstart; "
  "trajectories of 3 steps. Non-trivial: nv>=2 and all three oracles evaluated; distinct by hash(xml, integrator, states)."
)
ASSUMPTIONS = [
  "two executions of the same computation on the CPU device are expected bit-identical; differences up to 1e-4 relative "
  "(different but equivalent factorisation paths in step vs step1/step2) are tallied as round-off, >=1e-2 is a violation",
  "only the first step at which the two executions differ is judged (later steps amplify round-off)",
  "user inputs are not changed between step1 and step2; no callbacks are installed",
]
BUDGET = {"quick": 240, "thorough": 1200}

INTEGRATORS = ("Euler", "implicitfast", "implicit", "RK4")
INT_ENUM = {"Euler": 0, "RK4": 1, "implicit": 2, "implicitfast": 3}

SENSORS = ("jointpos", "jointvel", "framepos", "framequat", "framelinvel", "framelinacc", "frameangacc", "accelerometer", "gyro", "force", "torque", "actuatorfrc", "jointactuatorfrc", "subtreecom", "subtreelinvel", "clock", "tendonpos", "tendonvel", "touch")

P_FREE = gen.profile(
  nbody=(2, 7),
  p_spring=0.5,
  p_damping=0.7,
  p_armature=0.5,
  p_gravcomp=0.3,
  fluid=0.3,
  tendon_fixed=0.4,
  tendon_spatial=0.3,
  p_mocap=0.15,
  actuators=3,
  act_kinds=("motor", "position", "velocity", "general", "general", "intvelocity", "damper", "cylinder", "muscle"),
  act_trn=("joint", "tendon", "site", "jointinparent", "slidercrank"),
  act_ball=False,
  sensors=5,
  sensor_kinds=SENSORS,
  nuserdata=2,
  flags_enable=("energy",),
)
P_SOFT = gen.profile(
  nbody=(2, 7),
  p_spring=0.4,
  p_damping=0.6,
  p_armature=0.5,
  tendon_fixed=0.5,
  tendon_spatial=0.3,
  p_limit=0.6,
  p_frictionloss=0.3,
  equality=2,
  actuators=2,
  act_kinds=("motor", "position", "general"),
  act_ball=False,
  p_mocap=0.1,
  sensors=4,
  sensor_kinds=SENSORS + ("jointlimitfrc", "jointlimitpos"),
)
P_CONTACT = gen.profile(
  nbody=(2, 5),
  p_free=0.8,
  p_plane=1.0,
  collide=True,
  contact_rich=True,
  geoms=("sphere", "capsule", "box", "ellipsoid"),
  condims=(1, 3, 4, 6),
  cones=("pyramidal", "elliptic"),
  actuators=1,
  act_kinds=("motor", "general"),
  act_ball=False,
  sensors=3,
  sensor_kinds=("accelerometer", "touch", "force", "framelinacc", "jointpos"),
)

REPO_MODELS = ["pendula.xml", "humanoid/humanoid.xml", "constraints.xml", "actuation/actuators.xml", "collision.xml", "tendon/wrap.xml"]

STATE_KEYS = ("time", "qpos", "qvel", "act", "qacc_warmstart", "ctrl", "qfrc_applied", "xfrc_applied", "eq_active", "mocap_pos", "mocap_quat", "userdata")
TRAJ_KEYS = ("qpos", "qvel", "act", "time", "qacc_warmstart", "qacc", "qacc_smooth", "qfrc_constraint", "qfrc_smooth", "actuator_force", "act_dot", "sensordata", "energy", "nefc", "ne", "nf", "nl")
EFC_KEYS = ("type", "id", "pos", "D", "aref", "force", "state")


def cases(tier, seed):
  n = {"quick": (48, 24, 24), "thorough": (1200, 600, 600)}[tier]
  out = []
  for kind, cnt, off in (("free", n[0], 0), ("soft", n[1], 20000), ("contact", n[2], 40000)):
    for i in range(cnt):
      out.append({"id": f"{kind}{seed}_{i}", "kind": kind, "seed": seed * 100000 + off + i, "integrator": INTEGRATORS[i % 4], "weight": 2 if kind != "free" else 1})
  for k, p in enumerate(REPO_MODELS):
    for r in range(1 if tier == "quick" else 8):
      out.append({"id": f"repo{seed}_{k}_{r}", "kind": "repo", "path": p, "seed": seed * 100000 + 60000 + 10 * k + r, "integrator": INTEGRATORS[(k + r) % 4], "weight": 3})
  return out


def build_model(case):
  import os

  kind = case["kind"]
  if kind == "repo":
    path = os.path.join(core.TEST_DATA, case["path"])
    try:
      mjm = mujoco.MjModel.from_xml_path(path)
    except Exception:
      return None, None, None
    xml, feat = case["path"], ["repo:" + case["path"]]
    mjm.opt.enableflags &= ~int(mujoco.mjtEnableBit.mjENBL_SLEEP)
  else:
    P = {"free": P_FREE, "soft": P_SOFT, "contact": P_CONTACT}[kind]
    xml, mjm, feat, _ = gen.make_model(case["seed"], P, accept=_step.well_conditioned)
    if mjm is None:
      return None, None, None
  mjm.opt.integrator = INT_ENUM[case["integrator"]]
  return xml, mjm, list(feat)


def snap(d, keys):
  return {k: np.array(mw.npy(getattr(d, k))) for k in keys if getattr(d, k, None) is not None}


def full_snapshot(mjm, m, d):
  out = mw.snapshot(d)
  for k in EFC_KEYS:
    out["efc." + k] = np.array(mw.npy(getattr(d.efc, k)))
  nacon = min(int(mw.npy(d.nacon)[0]), d.naconmax)
  out["nacon"] = np.array([int(mw.npy(d.nacon)[0])])
  for k in ("dist", "pos", "frame", "geom", "worldid", "dim", "efc_address"):
    out["contact." + k] = np.array(mw.npy(getattr(d.contact, k))[:nacon])
  return out


def compare_dicts(rec, a, b, prefix, ctx):
  """first-divergence comparison of two snapshots; returns 'bit' | 'round' | 'viol' | 'incon'."""
  worst = "bit"
  order = {"bit": 0, "round": 1, "incon": 2, "viol": 3}
  for k in a:
    if k not in b:
      continue
    r = cmp.first_divergence(rec, k, a[k], b[k], sig_prefix=prefix, ctx=ctx)
    if order[r] > order[worst]:
      worst = r
  return worst


def run_case(case):
  import mujoco_warp as mjw

  rec = core.Rec(case)
  rng = np.random.default_rng(case["seed"])
  xml, mjm, feat = build_model(case)
  if mjm is None:
    rec.rejected = "mujoco compile / missing"
    return rec.result()
  try:
    m = mw.put_model(mjm)
  except (NotImplementedError, ValueError) as e:
    rec.rejected = f"put_model: {e}"[:200]
    rec.count("rejected_put_model")
    return rec.result()
  integ = case["integrator"]
  nworld = 3
  states = []
  for w in range(nworld):
    st = gen.sample_state(mjm, rng, vel=float(rng.choice([0.3, 3.0])), quat_scale=True)
    if case["kind"] in ("contact",) or (case["kind"] == "repo" and mjm.nbody > 12):
      st["qpos"] = (np.array(mjm.qpos0) + rng.normal(size=mjm.nq) * 0.02).astype(np.float32)
    st["qacc_warmstart"] = (rng.normal(size=mjm.nv) * 3.0).astype(np.float32)
    states.append(st)
  caps = {}
  if case["kind"] in ("contact", "repo"):
    caps = dict(njmax=256, nconmax=96)

  # ---- B: forward() does not touch the integration state;  C: forward() twice is identical
  d = mw.make_data(mjm, m, states, **caps)
  before = snap(d, STATE_KEYS)
  mjw.forward(m, d)
  after = snap(d, STATE_KEYS)
  for k in before:
    rec.check()
    if before[k].tobytes() != after[k].tobytes():
      idx = int(np.argmax((before[k] != after[k]).ravel()))
      rec.viol(f"forward_changes_state:{k}", f"forward() changed integration-state field {k} at flat index {idx}: {before[k].ravel()[idx]} -> {after[k].ravel()[idx]}", index=idx)
  s1 = full_snapshot(mjm, m, d)
  mjw.forward(m, d)
  s2 = full_snapshot(mjm, m, d)
  r = compare_dicts(rec, s1, s2, "forward_twice:", "second forward vs first")
  rec.count("forward_twice:" + r)
  after2 = snap(d, STATE_KEYS)
  for k in before:
    rec.check()
    if before[k].tobytes() != after2[k].tobytes():
      rec.viol(f"forward_changes_state:{k}", f"second forward() changed integration-state field {k}")
  rec.cover("forward_state_checks", len(before))
  rec.cover("forward_twice:" + integ, 1)
  ovf = int(np.bitwise_or.reduce(mw.npy(d.overflow)))
  if ovf & _step.OVF_CAP:
    rec.count("capacity_overflow_cases")

  # ---- A: step1; step2 == step
  if integ != "RK4":
    da = mw.make_data(mjm, m, states, **caps)
    db = mw.make_data(mjm, m, states, **caps)
    verdict = "bit"
    nsteps = 3
    for k in range(nsteps):
      mjw.step(m, da)
      mjw.step1(m, db)
      mjw.step2(m, db)
      a, b = snap(da, TRAJ_KEYS), snap(db, TRAJ_KEYS)
      fin = all(np.all(np.isfinite(a[x])) for x in ("qpos", "qvel"))
      if not fin:
        rec.inconcl("trajectory not finite")
        verdict = "incon"
        break
      v = compare_dicts(rec, a, b, f"step12[{integ}]:", f"step1;step2 vs step, step {k}")
      rec.cover("split_steps_compared", 1)
      if v != "bit":
        verdict = v
        break
    rec.count(f"step12:{verdict}")
    rec.cover("step12:" + integ, 1)
    if mjm.na:
      rec.cover("step12_with_act:" + integ, 1)
    if int(mw.npy(da.nefc).max()) > 0:
      rec.cover("step12_constrained:" + integ, 1)
  for f in feat:
    rec.cover("features", f)
  rec.cover("kind:" + case["kind"], 1)
  if mjm.nsensor:
    rec.cover("with_sensors", 1)
  if int(mw.npy(d.nefc).max()) > 0:
    rec.cover("forward_twice_constrained", 1)
  if int(mw.npy(d.nacon)[0]) > 0:
    rec.cover("forward_twice_contacts", 1)
  if any(abs(np.linalg.norm(st["qpos"][a : a + 4]) - 1) > 1e-3 for st in states for a in _step.quat_slots(mjm)[0]):
    rec.cover("unnormalised_quat_states", 1)
  if mjm.nv >= 2:
    rec.nontrivial(xml, integ, *[s["qpos"] for s in states], *[s["qvel"] for s in states])
  rec.sample = {"kind": case["kind"], "model": case.get("path", f"seed {case['seed']}"), "integrator": integ, "nv": mjm.nv, "na": mjm.na, "nsensor": mjm.nsensor, "nefc_max": int(mw.npy(d.nefc).max()), "nacon": int(mw.npy(d.nacon)[0]), "forward_twice": r}
  return rec.result()


def requirements(agg, tier):
  unmet = []
  cov = agg["cover"]
  for integ in ("Euler", "implicitfast", "implicit"):
    if cov.get("step12:" + integ, 0) < 8:
      unmet.append(f"fewer than 8 step1;step2 comparisons for {integ}")
    if cov.get("step12_with_act:" + integ, 0) < 2:
      unmet.append(f"step1;step2 never compared with activation state for {integ}")
    if cov.get("step12_constrained:" + integ, 0) < 2:
      unmet.append(f"step1;step2 never compared on a constrained world for {integ}")
  for integ in INTEGRATORS:
    if cov.get("forward_twice:" + integ, 0) < 8:
      unmet.append(f"fewer than 8 forward-twice comparisons for {integ}")
  for k in ("with_sensors", "forward_twice_constrained", "forward_twice_contacts", "unnormalised_quat_states"):
    if not cov.get(k):
      unmet.append(f"never observed: {k}")
  if agg["distinct"] < 30:
    unmet.append("fewer than 30 distinct non-trivial cases")
  return unmet
