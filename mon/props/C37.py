"""C37 Pipeline stages compose consistently.

Metamorphic monitor (no reference engine), three oracles on the same generated model and batch of states:
  A  step1(); step2()  ==  step()   for Euler, implicitfast and implicit, compared after every step of a short trajectory
     with the first-divergence rule (bit-equal / round-off <=1e-4 / violated >=1e-2); RK4 is excluded (step2 documents
     that it falls back to Euler).
  B  forward() leaves the integration state bit-identical (time qpos qvel act qacc_warmstart ctrl qfrc_applied
     xfrc_applied eq_active mocap_pos mocap_quat userdata), incl. unnormalised quaternions.
  C  a second forward() reproduces every per-world Data field, the constraint rows and the contact set of the first.
"""

import mujoco
import numpy as np

from mon import cmp, core, gen, mw
from mon.props import _step

ID = "C37"
LEVEL = "exploration"
RULE = (
  "case=(kind,seed,integrator): generated tree (free/ball/hinge/slide, springs, dampers, tendons, actuators with activation "
  "dynamics, sensors incl. acceleration-stage ones; 'soft' adds limits/equalities/frictionloss; 'contact' = free bodies on a "
  "plane with collisions on; 'forest' = 2..6 kinematic trees in random order whose inertia blocks are of different kinds - "
  "diagonal blocks of centred free/ball bodies and lone joints placed after other trees, fully coupled small trees, "
  "branching / 7..9-dof trees, a 67-dof tree - free bodies resting on a plane, narrow joint limits, CG or Newton solver, "
  "Data from make_data / reset_data / put_data of a never-forwarded MjData so that no derived field is pre-computed) "
  "or a repository model; 3 worlds with different random states and non-zero warmstart; "
  "trajectories of 3 steps. Non-trivial: nv>=2 and all three oracles evaluated; distinct by hash(xml, integrator, states)."
)
ASSUMPTIONS = [
  "two executions of the same computation on the CPU device are expected bit-identical; differences up to 1e-4 relative "
  "(different but equivalent factorisation paths in step vs step1/step2) are tallied as round-off, >=1e-2 is a violation",
  "only the first step at which the two executions differ is judged (later steps amplify round-off)",
  "user inputs are not changed between step1 and step2; no callbacks are installed",
]
BUDGET = {"quick": 240, "thorough": 1200}

INTEGRATORS = ("Euler", "implicitfast", "implicit", "RK4")
INT_ENUM = {"Euler": 0, "RK4": 1, "implicit": 2, "implicitfast": 3}

SENSORS = ("jointpos", "jointvel", "framepos", "framequat", "framelinvel", "framelinacc", "frameangacc", "accelerometer", "gyro", "force", "torque", "actuatorfrc", "jointactuatorfrc", "subtreecom", "subtreelinvel", "clock", "tendonpos", "tendonvel", "touch")

P_FREE = gen.profile(
  nbody=(2, 7),
  p_spring=0.5,
  p_damping=0.7,
  p_armature=0.5,
  p_gravcomp=0.3,
  fluid=0.3,
  tendon_fixed=0.4,
  tendon_spatial=0.3,
  p_mocap=0.15,
  actuators=3,
  act_kinds=("motor", "position", "velocity", "general", "general", "intvelocity", "damper", "cylinder", "muscle"),
  act_trn=("joint", "tendon", "site", "jointinparent", "slidercrank"),
  act_ball=False,
  sensors=5,
  sensor_kinds=SENSORS,
  nuserdata=2,
  flags_enable=("energy",),
)
P_SOFT = gen.profile(
  nbody=(2, 7),
  p_spring=0.4,
  p_damping=0.6,
  p_armature=0.5,
  tendon_fixed=0.5,
  tendon_spatial=0.3,
  p_limit=0.6,
  p_frictionloss=0.3,
  equality=2,
  solvers=("Newton", "CG"),
  actuators=2,
  act_kinds=("motor", "position", "general"),
  act_ball=False,
  p_mocap=0.1,
  sensors=4,
  sensor_kinds=SENSORS + ("jointlimitfrc", "jointlimitpos"),
)
P_CONTACT = gen.profile(
  nbody=(2, 5),
  p_free=0.8,
  p_plane=1.0,
  collide=True,
  contact_rich=True,
  solvers=("Newton", "CG"),
  geoms=("sphere", "capsule", "box", "ellipsoid"),
  condims=(1, 3, 4, 6),
  cones=("pyramidal", "elliptic"),
  actuators=1,
  act_kinds=("motor", "general"),
  act_ball=False,
  sensors=3,
  sensor_kinds=("accelerometer", "touch", "force", "framelinacc", "jointpos"),
)

REPO_MODELS = ["pendula.xml", "humanoid/humanoid.xml", "constraints.xml", "actuation/actuators.xml", "collision.xml", "tendon/wrap.xml"]

STATE_KEYS = ("time", "qpos", "qvel", "act", "qacc_warmstart", "ctrl", "qfrc_applied", "xfrc_applied", "eq_active", "mocap_pos", "mocap_quat", "userdata")
TRAJ_KEYS = ("qpos", "qvel", "act", "time", "qacc_warmstart", "qacc", "qacc_smooth", "qfrc_constraint", "qfrc_smooth", "actuator_force", "act_dot", "sensordata", "energy", "nefc", "ne", "nf", "nl", "qLD", "qLDiagInv")
EFC_KEYS = ("type", "id", "pos", "D", "aref", "force", "state")


# ---------------------------------------------------------------------------------------------- forest family
# Several kinematic trees in random order, so that the inertia matrix has diagonal blocks of several kinds that start at
# arbitrary dof addresses: 'compact' (purely diagonal block of a MuJoCo "simple" body: centred free / ball body, lone
# hinge / slide), 'triangular' (fully coupled tree of <= 6 dofs), 'tile' (branching tree or 7..64 dofs) and 'sparse'
# (> 64 dofs).  Free bodies rest on a plane, joints have narrow limits, the solver is CG (consumes the stored inertia
# factorisation as its preconditioner) or Newton, and the Data comes from make_data / reset_data / put_data of an MjData
# that never went through mj_forward: every derived field (qLD, qLDiagInv, ...) starts at zero or stale.
FOREST_INTEGRATORS = ("Euler", "implicitfast", "implicit", "Euler", "implicitfast", "implicit", "RK4")
FOREST_DATA = ("make", "make", "reset", "put_raw")
FOREST_TREES = ("cfree", "cfree", "cfree", "cball", "c1", "ofree", "chain", "chain", "branch", "long")


def _fmt(x):
  return " ".join(f"{float(v):.6g}" for v in np.atleast_1d(x))


def _centred_geom(rng, name, collide):
  """a geom whose inertia frame coincides with the body frame: the body stays 'simple' (diagonal inertia block)."""
  t = ("sphere", "box", "ellipsoid", "capsule", "cylinder")[rng.integers(5)]
  s = rng.uniform(0.06, 0.14, size=3)
  size = {"sphere": s[:1], "box": s, "ellipsoid": s, "capsule": s[:2], "cylinder": s[:2]}[t]
  low = {"sphere": s[0], "box": s[2], "ellipsoid": s[2], "capsule": s[0] + s[1], "cylinder": s[1]}[t]
  mass = f'mass="{_fmt(rng.uniform(0.3, 3.0))}"' if rng.random() < 0.5 else f'density="{_fmt(rng.uniform(300, 2500))}"'
  con = _contact_attrs(rng) if collide else 'contype="0" conaffinity="0"'
  return f'<geom name="{name}" type="{t}" size="{_fmt(size)}" {mass} {con}/>', float(low)


def _contact_attrs(rng):
  a = f'condim="{(1, 3, 3, 4, 6)[rng.integers(5)]}"'
  if rng.random() < 0.5:
    a += f' friction="{_fmt([rng.uniform(0.3, 1.2), rng.uniform(0.002, 0.02), rng.uniform(0.0001, 0.005)])}"'
  return a


def _limited_joint(rng, name, jt=None, axis=None):
  jt = jt or ("hinge", "hinge", "slide")[rng.integers(3)]
  ax = axis if axis is not None else rng.normal(size=3)
  ax = np.asarray(ax, dtype=float) / np.linalg.norm(ax)
  a = f'<joint name="{name}" type="{jt}" axis="{_fmt(ax)}"'
  if rng.random() < 0.7:
    # narrow range around the reference pose: the limit is active or about to be for the sampled states
    lo, hi = sorted(rng.uniform(-0.03, 0.03, size=2))
    if jt == "hinge":
      lo, hi = np.degrees(lo), np.degrees(hi)
    a += f' limited="true" range="{_fmt([lo, hi + 1e-3])}"'
  if rng.random() < 0.5:
    a += f' damping="{_fmt(rng.uniform(0.05, 1.0))}"'
  if rng.random() < 0.4:
    a += f' armature="{_fmt(rng.uniform(0.01, 0.2))}"'
  if rng.random() < 0.3:
    a += f' stiffness="{_fmt(rng.uniform(1, 30))}"'
  return a + "/>"


def _link_geom(rng, name):
  return f'<geom name="{name}" type="capsule" size="{_fmt(rng.uniform(0.02, 0.04))}" fromto="0 0 0 {_fmt(rng.uniform(0.1, 0.2))} 0 0" density="{_fmt(rng.uniform(400, 1500))}" contype="0" conaffinity="0"/>'


def forest_xml(seed, integrator, with_big):
  """-> (xml, list of tree kinds in dof order)."""
  rng = np.random.default_rng([int(seed), 0xF07E])
  ntree = int(rng.integers(2, 6))
  kinds = [FOREST_TREES[rng.integers(len(FOREST_TREES))] for _ in range(ntree)]
  if not any(k in ("cfree", "cball", "c1") for k in kinds[1:]):
    kinds[int(rng.integers(1, ntree))] = "cfree"  # a compact block that does not start at dof 0
  if with_big:
    kinds.insert(int(rng.integers(0, len(kinds))), "big")
  solver = "CG" if rng.random() < 0.7 else "Newton"
  cone = ("pyramidal", "elliptic")[rng.integers(2)]
  ts = (0.002, 0.00390625, 0.005)[rng.integers(3)]
  out = [
    "<mujoco>",
    f'  <option timestep="{ts}" integrator="{integrator}" solver="{solver}" cone="{cone}" iterations="{int(rng.choice([30, 60, 100]))}" tolerance="{_fmt(rng.choice([1e-8, 1e-10]))}"/>',
    "  <worldbody>",
    f'    <geom name="floor" type="plane" size="0 0 1" {_contact_attrs(rng)}/>',
  ]
  act = []
  for t, kind in enumerate(kinds):
    x, y = 0.8 * (t % 4) + rng.uniform(-0.1, 0.1), 0.8 * (t // 4) + rng.uniform(-0.1, 0.1)
    b = f"t{t}"
    if kind in ("cfree", "ofree"):
      g, low = _centred_geom(rng, f"g_{b}", True)
      z = low - rng.uniform(0.0, 0.008) if rng.random() < 0.85 else low + rng.uniform(0.05, 0.3)
      out.append(f'    <body name="{b}" pos="{_fmt([x, y, z])}">')
      out.append(f'      <freejoint name="j_{b}"/>')
      if kind == "cfree" and rng.random() < 0.25:
        # explicit inertial aligned with the body frame, geom anywhere
        di = rng.uniform(0.008, 0.015, size=3)  # any triple in this range satisfies the triangle inequality
        out.append(f'      <inertial pos="0 0 0" mass="{_fmt(rng.uniform(0.3, 3))}" diaginertia="{_fmt(di)}"/>')
      out.append("      " + g)
      if kind == "ofree":
        out.append(f'      <geom name="g2_{b}" type="sphere" size="{_fmt(rng.uniform(0.03, 0.06))}" pos="{_fmt(rng.normal(size=3) * 0.06)}" contype="0" conaffinity="0"/>')
      out.append("    </body>")
    elif kind == "cball":
      g, _ = _centred_geom(rng, f"g_{b}", False)
      out.append(f'    <body name="{b}" pos="{_fmt([x, y, 0.8])}">')
      lim = f' limited="true" range="0 {_fmt(rng.uniform(0.5, 3))}"' if rng.random() < 0.7 else ""
      out.append(f'      <joint name="j_{b}" type="ball"{lim} damping="{_fmt(rng.uniform(0.0, 0.3))}"/>')
      out.append("      " + g)
      out.append("    </body>")
    elif kind == "c1":
      out.append(f'    <body name="{b}" pos="{_fmt([x, y, 0.8])}">')
      out.append("      " + _limited_joint(rng, f"j_{b}"))
      out.append(f'      <geom name="g_{b}" type="box" size="{_fmt(rng.uniform(0.05, 0.12, size=3))}" pos="{_fmt(rng.normal(size=3) * 0.1)}" contype="0" conaffinity="0"/>')
      out.append("    </body>")
      act.append(f"j_{b}")
    elif kind in ("chain", "long"):
      n = int(rng.integers(2, 6)) if kind == "chain" else int(rng.integers(7, 10))
      out.append(f'    <body name="{b}" pos="{_fmt([x, y, 1.0])}">')
      depth = 1
      for k in range(n):
        if k:
          out.append("  " * depth + f'    <body name="{b}_{k}" pos="{_fmt([rng.uniform(0.1, 0.2), 0, 0])}">')
          depth += 1
        out.append("  " * depth + "    " + _limited_joint(rng, f"j_{b}_{k}", jt="hinge" if kind == "long" else None, axis=(0, 1, 0) if kind == "long" and k % 2 else None))
        out.append("  " * depth + "    " + _link_geom(rng, f"g_{b}_{k}"))
      for k in range(depth):
        out.append("  " * (depth - k) + "  </body>")
      act.append(f"j_{b}_{n - 1}")
    elif kind == "branch":
      out.append(f'    <body name="{b}" pos="{_fmt([x, y, 1.0])}">')
      out.append("      " + _limited_joint(rng, f"j_{b}_0"))
      out.append("      " + _link_geom(rng, f"g_{b}_0"))
      for k in range(1, int(rng.integers(3, 5))):
        out.append(f'      <body name="{b}_{k}" pos="{_fmt(rng.normal(size=3) * 0.15)}">')
        out.append("        " + _limited_joint(rng, f"j_{b}_{k}"))
        out.append("        " + _link_geom(rng, f"g_{b}_{k}"))
        out.append("      </body>")
      out.append("    </body>")
    elif kind == "big":
      # star of 11 six-link arms on one root hinge: 67 dofs in one tree, kept well conditioned by joint armature
      out.append(f'    <body name="{b}" pos="{_fmt([x, y, 1.5])}">')
      out.append(f'      <joint name="j_{b}_r" type="hinge" axis="0 0 1" armature="0.1"/>')
      out.append(f'      <geom name="g_{b}_r" type="sphere" size="0.05" contype="0" conaffinity="0"/>')
      for a in range(11):
        ang = 2 * np.pi * a / 11
        for k in range(6):
          pos = [0.1 * np.cos(ang), 0.1 * np.sin(ang), 0] if k == 0 else [0.1, 0, 0]
          out.append("  " * k + f'      <body name="{b}_{a}_{k}" pos="{_fmt(pos)}">')
          lim = ' limited="true" range="-1 1"' if rng.random() < 0.2 else ""
          out.append("  " * k + f'        <joint name="j_{b}_{a}_{k}" type="hinge" axis="{_fmt((0, 1, 0) if k % 2 else (0, 0, 1))}" armature="0.05" damping="0.05"{lim}/>')
          out.append("  " * k + f'        <geom name="g_{b}_{a}_{k}" type="capsule" size="0.02" fromto="0 0 0 0.1 0 0" density="500" contype="0" conaffinity="0"/>')
        for k in range(6):
          out.append("  " * (5 - k) + "      </body>")
      out.append("    </body>")
  out.append("  </worldbody>")
  if act:
    out.append("  <actuator>")
    for k, j in enumerate(act[:3]):
      if rng.random() < 0.5:
        out.append(f'    <motor name="a{k}" joint="{j}" gear="{_fmt(rng.uniform(0.5, 3))}"/>')
      else:
        out.append(f'    <general name="a{k}" joint="{j}" dyntype="filter" dynprm="{_fmt(rng.uniform(0.02, 0.2))}" gainprm="{_fmt(rng.uniform(0.5, 3))}"/>')
    out.append("  </actuator>")
  out.append("  <sensor>")
  for t in range(len(kinds)):
    st = ("framelinacc", "frameangacc", "framelinvel", "subtreecom")[rng.integers(4)]
    out.append(f'    <{st} name="s{t}" ' + (f'body="t{t}"/>' if st == "subtreecom" else f'objtype="body" objname="t{t}"/>'))
  out.append("  </sensor>")
  out.append("</mujoco>")
  return "\n".join(out), kinds


def m_blocks(mjm):
  """[(start, size, kind)] of the diagonal blocks (kinematic trees) of the inertia matrix, kind by coupling pattern."""
  out = []
  for adr, num in zip(mjm.tree_dofadr, mjm.tree_dofnum):
    adr, num = int(adr), int(num)
    if num <= 0:
      continue
    nnz = int(np.sum(mjm.M_rownnz[adr : adr + num]))
    if nnz == num and num <= 6:
      kind = "compact"
    elif nnz == num * (num + 1) // 2 and num <= 6:
      kind = "triangular"
    elif num <= 64:
      kind = "tile"
    else:
      kind = "sparse"
    out.append((adr, num, kind))
  return out


def fresh_data(mjm, m, states, caps, mode, rng_seed=0):
  """Data that has NOT been through a MuJoCo forward pass, holding `states`."""
  import mujoco_warp as mjw

  if mode == "make":
    return mw.make_data(mjm, m, states, **caps)
  if mode == "reset":
    # used Data (other states, a few steps) returned to the initial condition by reset_data
    r = np.random.default_rng([int(rng_seed), 0x5E7])
    other = [gen.sample_state(mjm, r, vel=0.3, quat_scale=False) for _ in states]
    for st in other:
      st["qpos"] = (np.array(mjm.qpos0) + r.normal(size=mjm.nq) * 0.01).astype(np.float32)
    d = mw.make_data(mjm, m, other, **caps)
    for _ in range(2):
      mjw.step(m, d)
    mjw.reset_data(m, d)
    mw.set_world_states(m, d, states)
    return d
  if mode == "put_raw":
    import warnings

    mjd = mujoco.MjData(mjm)  # never forwarded
    with warnings.catch_warnings():
      warnings.simplefilter("ignore")
      d = mjw.put_data(mjm, mjd, nworld=len(states), **caps)
    mw.set_world_states(m, d, states)
    return d
  raise ValueError(mode)


def cases(tier, seed):
  n = {"quick": (48, 24, 24), "thorough": (1200, 600, 600)}[tier]
  out = []
  nf = {"quick": 42, "thorough": 900}[tier]
  for i in range(nf):
    out.append(
      {
        "id": f"forest{seed}_{i}",
        "kind": "forest",
        "seed": seed * 100000 + 80000 + i,
        "integrator": FOREST_INTEGRATORS[i % 7],
        "data": FOREST_DATA[(i // 7) % 4],
        "big": bool(i % 13 == 5),
        "weight": 4 if i % 13 == 5 else 2,
      }
    )
  for kind, cnt, off in (("free", n[0], 0), ("soft", n[1], 20000), ("contact", n[2], 40000)):
    for i in range(cnt):
      out.append({"id": f"{kind}{seed}_{i}", "kind": kind, "seed": seed * 100000 + off + i, "integrator": INTEGRATORS[i % 4], "weight": 2 if kind != "free" else 1})
  for k, p in enumerate(REPO_MODELS):
    for r in range(1 if tier == "quick" else 8):
      out.append({"id": f"repo{seed}_{k}_{r}", "kind": "repo", "path": p, "seed": seed * 100000 + 60000 + 10 * k + r, "integrator": INTEGRATORS[(k + r) % 4], "weight": 3})
  return out


def build_model(case):
  import os

  kind = case["kind"]
  if kind == "repo":
    path = os.path.join(core.TEST_DATA, case["path"])
    try:
      mjm = mujoco.MjModel.from_xml_path(path)
    except Exception:
      return None, None, None
    xml, feat = case["path"], ["repo:" + case["path"]]
    mjm.opt.enableflags &= ~int(mujoco.mjtEnableBit.mjENBL_SLEEP)
  elif kind == "forest":
    xml, trees = forest_xml(case["seed"], case["integrator"], case.get("big", False))
    try:
      mjm = mujoco.MjModel.from_xml_string(xml)
    except Exception:
      return None, None, None
    if not _step.well_conditioned(mjm, limit=1e6 if case.get("big") else 1e5):
      return None, None, None
    feat = ["forest_tree:" + t for t in trees] + ["solver:" + ("CG" if mjm.opt.solver == mujoco.mjtSolver.mjSOL_CG else "Newton")]
  else:
    P = {"free": P_FREE, "soft": P_SOFT, "contact": P_CONTACT}[kind]
    xml, mjm, feat, _ = gen.make_model(case["seed"], P, accept=_step.well_conditioned)
    if mjm is None:
      return None, None, None
  mjm.opt.integrator = INT_ENUM[case["integrator"]]
  return xml, mjm, list(feat)


def snap(d, keys):
  return {k: np.array(mw.npy(getattr(d, k))) for k in keys if getattr(d, k, None) is not None}


def full_snapshot(mjm, m, d):
  out = mw.snapshot(d)
  for k in EFC_KEYS:
    out["efc." + k] = np.array(mw.npy(getattr(d.efc, k)))
  nacon = min(int(mw.npy(d.nacon)[0]), d.naconmax)
  out["nacon"] = np.array([int(mw.npy(d.nacon)[0])])
  for k in ("dist", "pos", "frame", "geom", "worldid", "dim", "efc_address"):
    out["contact." + k] = np.array(mw.npy(getattr(d.contact, k))[:nacon])
  return out


def compare_dicts(rec, a, b, prefix, ctx):
  """first-divergence comparison of two snapshots; returns 'bit' | 'round' | 'viol' | 'incon'."""
  worst = "bit"
  order = {"bit": 0, "round": 1, "incon": 2, "viol": 3}
  for k in a:
    if k not in b:
      continue
    r = cmp.first_divergence(rec, k, a[k], b[k], sig_prefix=prefix, ctx=ctx)
    if order[r] > order[worst]:
      worst = r
  return worst


def run_case(case):
  import mujoco_warp as mjw

  rec = core.Rec(case)
  rng = np.random.default_rng(case["seed"])
  xml, mjm, feat = build_model(case)
  if mjm is None:
    rec.rejected = "mujoco compile / missing"
    return rec.result()
  try:
    m = mw.put_model(mjm)
  except (NotImplementedError, ValueError) as e:
    rec.rejected = f"put_model: {e}"[:200]
    rec.count("rejected_put_model")
    return rec.result()
  integ = case["integrator"]
  nworld = 3
  states = []
  for w in range(nworld):
    st = gen.sample_state(mjm, rng, vel=float(rng.choice([0.3, 3.0])), quat_scale=True)
    if case["kind"] in ("contact", "forest") or (case["kind"] == "repo" and mjm.nbody > 12):
      st["qpos"] = (np.array(mjm.qpos0) + rng.normal(size=mjm.nq) * 0.02).astype(np.float32)
    st["qacc_warmstart"] = (rng.normal(size=mjm.nv) * 3.0).astype(np.float32)
    states.append(st)
  caps = {}
  if case["kind"] in ("contact", "repo", "forest"):
    caps = dict(njmax=256, nconmax=96)
  mode = case.get("data", "make")
  blocks = m_blocks(mjm)
  is_cg = int(mjm.opt.solver) == int(mujoco.mjtSolver.mjSOL_CG)

  # ---- B: forward() does not touch the integration state;  C: forward() twice is identical
  d = fresh_data(mjm, m, states, caps, mode, case["seed"])
  before = snap(d, STATE_KEYS)
  mjw.forward(m, d)
  after = snap(d, STATE_KEYS)
  for k in before:
    rec.check()
    if before[k].tobytes() != after[k].tobytes():
      idx = int(np.argmax((before[k] != after[k]).ravel()))
      rec.viol(f"forward_changes_state:{k}", f"forward() changed integration-state field {k} at flat index {idx}: {before[k].ravel()[idx]} -> {after[k].ravel()[idx]}", index=idx)
  s1 = full_snapshot(mjm, m, d)
  mjw.forward(m, d)
  s2 = full_snapshot(mjm, m, d)
  r = compare_dicts(rec, s1, s2, "forward_twice:", "second forward vs first")
  rec.count("forward_twice:" + r)
  after2 = snap(d, STATE_KEYS)
  for k in before:
    rec.check()
    if before[k].tobytes() != after2[k].tobytes():
      rec.viol(f"forward_changes_state:{k}", f"second forward() changed integration-state field {k}")
  rec.cover("forward_state_checks", len(before))
  rec.cover("forward_twice:" + integ, 1)
  ovf = int(np.bitwise_or.reduce(mw.npy(d.overflow)))
  if ovf & _step.OVF_CAP:
    rec.count("capacity_overflow_cases")

  # ---- A: step1; step2 == step
  if integ != "RK4":
    da = fresh_data(mjm, m, states, caps, mode, case["seed"])
    db = fresh_data(mjm, m, states, caps, mode, case["seed"])
    verdict = "bit"
    nsteps = 3
    for k in range(nsteps):
      mjw.step(m, da)
      mjw.step1(m, db)
      mjw.step2(m, db)
      a, b = snap(da, TRAJ_KEYS), snap(db, TRAJ_KEYS)
      if k == 0:
        # which kinds of inertia block carried constraint forces in this step (any world)
        fc = np.abs(a["qfrc_constraint"]).max(axis=0) > 0
        for start, size, bk in blocks:
          if fc[start : start + size].any():
            tag = f"{bk}{'@0' if start == 0 else '@later'}"
            rec.cover(f"step12_block_constrained[{'CG' if is_cg else 'Newton'}]:{tag}", 1)
            if is_cg and bk == "compact" and start > 0:
              rec.cover(f"step12_cg_unforwarded_compact_later:{integ}", 1)
              rec.cover(f"step12_cg_unforwarded_compact_later[{mode}]", 1)
            if is_cg and bk != "compact":
              rec.cover(f"step12_cg_unforwarded_{bk}:{integ}", 1)
      fin = all(np.all(np.isfinite(a[x])) for x in ("qpos", "qvel"))
      if not fin:
        rec.inconcl("trajectory not finite")
        verdict = "incon"
        break
      v = compare_dicts(rec, a, b, f"step12[{integ}]:", f"step1;step2 vs step, step {k}")
      rec.cover("split_steps_compared", 1)
      if v != "bit":
        verdict = v
        break
    rec.count(f"step12:{verdict}")
    rec.cover("step12:" + integ, 1)
    if mjm.na:
      rec.cover("step12_with_act:" + integ, 1)
    if int(mw.npy(da.nefc).max()) > 0:
      rec.cover("step12_constrained:" + integ, 1)
  for f in feat:
    rec.cover("features", f)
  rec.cover("kind:" + case["kind"], 1)
  rec.cover("data_origin:" + mode, 1)
  rec.cover("solver:" + ("CG" if is_cg else "Newton"), 1)
  for start, size, bk in blocks:
    rec.cover(f"inertia_block:{bk}{'@0' if start == 0 else '@later'}", 1)
  if len({bk for _, _, bk in blocks}) >= 2:
    rec.cover("inertia_block_kinds_mixed", 1)
  if mjm.nsensor:
    rec.cover("with_sensors", 1)
  if int(mw.npy(d.nefc).max()) > 0:
    rec.cover("forward_twice_constrained", 1)
  if int(mw.npy(d.nacon)[0]) > 0:
    rec.cover("forward_twice_contacts", 1)
  if any(abs(np.linalg.norm(st["qpos"][a : a + 4]) - 1) > 1e-3 for st in states for a in _step.quat_slots(mjm)[0]):
    rec.cover("unnormalised_quat_states", 1)
  if mjm.nv >= 2:
    rec.nontrivial(xml, integ, *[s["qpos"] for s in states], *[s["qvel"] for s in states])
  rec.sample = {"kind": case["kind"], "model": case.get("path", f"seed {case['seed']}"), "integrator": integ, "nv": mjm.nv, "na": mjm.na, "nsensor": mjm.nsensor, "nefc_max": int(mw.npy(d.nefc).max()), "nacon": int(mw.npy(d.nacon)[0]), "forward_twice": r, "data": mode, "solver": "CG" if is_cg else "Newton", "blocks": [f"{bk}:{start}+{size}" for start, size, bk in blocks]}
  return rec.result()


def requirements(agg, tier):
  unmet = []
  cov = agg["cover"]
  for integ in ("Euler", "implicitfast", "implicit"):
    if cov.get("step12:" + integ, 0) < 8:
      unmet.append(f"fewer than 8 step1;step2 comparisons for {integ}")
    if cov.get("step12_with_act:" + integ, 0) < 2:
      unmet.append(f"step1;step2 never compared with activation state for {integ}")
    if cov.get("step12_constrained:" + integ, 0) < 2:
      unmet.append(f"step1;step2 never compared on a constrained world for {integ}")
  for integ in INTEGRATORS:
    if cov.get("forward_twice:" + integ, 0) < 8:
      unmet.append(f"fewer than 8 forward-twice comparisons for {integ}")
  for k in ("with_sensors", "forward_twice_constrained", "forward_twice_contacts", "unnormalised_quat_states"):
    if not cov.get(k):
      unmet.append(f"never observed: {k}")
  for integ in ("Euler", "implicitfast", "implicit"):
    if cov.get("step12_cg_unforwarded_compact_later:" + integ, 0) < 2:
      unmet.append(f"step1;step2 vs step on never-forwarded Data with the CG solver and constraint forces on a compact inertia block that does not start at dof 0: fewer than 2 cases for {integ}")
  for mode in ("make", "reset", "put_raw"):
    if not cov.get(f"step12_cg_unforwarded_compact_later[{mode}]"):
      unmet.append(f"never observed: CG + constrained compact block after other trees on Data from '{mode}'")
  for bk in ("triangular", "tile"):
    if not any(cov.get(f"step12_cg_unforwarded_{bk}:{integ}") for integ in ("Euler", "implicitfast", "implicit")):
      unmet.append(f"never observed: CG + constraint forces on a {bk} inertia block")
  if not cov.get("inertia_block:sparse@0", 0) + cov.get("inertia_block:sparse@later", 0):
    unmet.append("never observed: a model with a sparse (> 64 dof) inertia block")
  if agg["distinct"] < 30:
    unmet.append("fewer than 30 distinct non-trivial cases")
  return unmet
