"""C14 reset_data_keyframe semantics.

Three oracles on executions of the real code: (i) differential: in every world whose key index is valid the seven
keyframe fields (time qpos qvel act ctrl mocap_pos mocap_quat) and the other user/state inputs equal what
mujoco.mj_resetDataKeyframe leaves in an MjData (float32 image); (ii) metamorphic: the whole world equals -- bit for bit,
every per-world array -- a copy of the same Data on which reset_data(mask of valid worlds) was called and the keyframe
fields were then written by hand, and both continue identically; (iii) worlds with an invalid index (-1, nkey, huge,
negative huge) are bit-identical to a control run without any reset (arrays, reported contacts, trajectory).  Invalid
scalar keys / shapes / dtypes must raise and leave Data unchanged.
"""

import mujoco
import numpy as np

from mon import cmp, core, gen, mw
from mon.props import C13
from mon.props import _state as S

ID = "C14"
LEVEL = "exploration"
RULE = (
  "case=(model seed): generated colliding scene with mocap bodies, actuators (na>nu included), delays, equalities, userdata and "
  "1-6 random keyframes (components present or defaulted); per case 5 scenarios = (nworld 2-5, random states, history 3-8 steps, "
  "key form: valid scalar / per-world int32 array mixing valid and invalid indices / all invalid / all valid / int64 array). "
  "Non-trivial: nkey>=1, history moved every world, >=1 valid world; distinct by hash(xml, states, keys)."
)
ASSUMPTIONS = [
  "mujoco.mj_resetDataKeyframe (3.13) defines which fields a keyframe sets; MuJoCo's delay-buffer initialisation is NOT "
  "compared here (C13/C30 own that: reset_data leaves Data.history stale), the metamorphic oracle uses the real reset_data",
  "first-divergence rule for trajectories (bit / <=1e-4 round-off / >=1e-2 violated)",
]
BUDGET = {"quick": 300, "thorough": 1500}

KEYF = ("time", "qpos", "qvel", "act", "ctrl", "mocap_pos", "mocap_quat")
OTHER = ("qacc_warmstart", "qfrc_applied", "xfrc_applied", "eq_active", "userdata")
FORMS = ("scalar", "mixed", "all_invalid", "all_valid", "int64")
CAPS = C13.CAPS

PROFILE = dict(C13.PROFILE)
PROFILE.update(p_mocap=0.5, delays=0.2)


def cases(tier, seed):
  n = 40 if tier == "quick" else 1100  # every new model costs 10-20 s of kernel specialisation when the cache is cold
  return [{"id": f"k{seed}_{i}", "seed": seed * 100000 + 50000 + i, "nkey": 1 + i % 6, "nscen": 5} for i in range(n)]


def _snap(d, names):
  return {k: np.array(mw.npy(getattr(d, k))) for k in names}


def _mj_key_fields(mjm, k):
  mjd = mujoco.MjData(mjm)
  # dirty everything a reset must clear
  mjd.qvel[:] = 1.0
  mjd.qacc_warmstart[:] = 2.0
  mjd.qfrc_applied[:] = 3.0
  mjd.xfrc_applied[:] = 4.0
  mjd.ctrl[:] = 5.0
  mjd.act[:] = 6.0
  mjd.time = 7.0
  if mjm.nuserdata:
    mjd.userdata[:] = 8.0
  mjd.eq_active[:] = 1 - np.asarray(mjm.eq_active0)
  mujoco.mj_resetDataKeyframe(mjm, mjd, k)
  out = {}
  for f in KEYF + OTHER:
    if f == "time":
      out[f] = np.float32(mjd.time)
    elif f == "eq_active":
      out[f] = np.array(mjd.eq_active, dtype=bool)
    else:
      out[f] = np.array(getattr(mjd, f), dtype=np.float32)
  return out


def _bad_keys(rec, m, d, nworld, nkey):
  import mujoco_warp as mjw
  import warp as wp

  bad = {
    "scalar:-1": -1,
    "scalar:nkey": nkey,
    "scalar:huge": nkey + 1000,
    "scalar:float": 0.0,
    "array:short": wp.zeros(nworld + 1, dtype=int),
    "array:2d": wp.zeros((nworld, 1), dtype=int),
    "array:float": wp.zeros(nworld, dtype=float),
    "none": None,
  }
  names = ("qpos", "qvel", "time", "act", "ctrl", "mocap_pos")
  before = _snap(d, names)
  for name, key in bad.items():
    rec.check()
    try:
      mjw.reset_data_keyframe(m, d, key)
      rec.viol("keyframe:invalid-key-accepted:" + name.split(":")[0] + ":" + name.split(":")[-1], f"reset_data_keyframe accepted key {name} (nkey={nkey})")
    except ValueError:
      rec.count("bad_key_rejected")
  after = _snap(d, names)
  rec.check()
  for k in names:
    if before[k].tobytes() != after[k].tobytes():
      rec.viol("keyframe:rejected-call-modified-data", f"{k} changed although reset_data_keyframe raised")


def _scenario(rec, mjm, m, xml, rng, form):
  import mujoco_warp as mjw
  import warp as wp

  nkey = mjm.nkey
  nworld = int(rng.integers(2, 6))
  H = int(rng.integers(3, 9))
  T = 3
  states = [gen.sample_state(mjm, rng, quat_scale=False) for _ in range(nworld)]
  A = mw.make_data(mjm, m, states, **CAPS)  # subject
  B = mw.make_data(mjm, m, states, **CAPS)  # control: no reset at all
  D = mw.make_data(mjm, m, states, **CAPS)  # reset_data(mask) + keyframe fields by hand
  for _ in range(H):
    inp = S.sample_inputs(mjm, rng, nworld)
    for d in (A, B, D):
      S.apply_inputs(d, inp)
      mjw.step(m, d)
  names = mw.world_fields(A)
  pre = _snap(A, names)
  if not np.all(np.isfinite(pre["qpos"])) or not np.all(np.isfinite(pre["qvel"])):
    rec.inconcl("history diverged to non-finite state")
    return None
  conB = [S.world_contacts(B, w) for w in range(nworld)]
  # twin D ran the same history: arrays that already differ now are uninitialised scratch (wp.empty), not observables
  preD = _snap(D, names)
  twin = [f for f in names if pre[f].tobytes() == preD[f].tobytes()]
  rec.cover("twin_arrays_compared", len(twin))
  for f in ("qpos", "qvel", "act", "history", "time", "qacc_warmstart"):
    if f not in twin:
      rec.inconcl("twin execution of the same history differs in " + f)
      return None

  invalid_pool = [-1, nkey, nkey + 1, 2**30, -(2**31), -7]
  if form == "scalar":
    k = int(rng.integers(nkey))
    keys = np.full(nworld, k)
    arg = k if rng.random() < 0.5 else np.int64(k)
  else:
    if form == "all_invalid":
      keys = np.array([invalid_pool[rng.integers(len(invalid_pool))] for _ in range(nworld)])
    elif form == "all_valid":
      keys = rng.integers(0, nkey, size=nworld)
    else:
      keys = np.array([int(rng.integers(nkey)) if rng.random() < 0.55 else invalid_pool[rng.integers(len(invalid_pool))] for _ in range(nworld)])
    arg = wp.array(keys.astype(np.int64), dtype=wp.int64) if form == "int64" else wp.array(keys.astype(np.int32), dtype=wp.int32)
  valid = (keys >= 0) & (keys < nkey)

  try:
    mjw.reset_data_keyframe(m, A, arg)
  except RuntimeError as e:
    if form != "int64":
      raise
    # an int64 index array passes the documented "integer dtype" validation and then dies inside a kernel launch
    rec.check()
    unchanged = all(_snap(A, (k,))[k].tobytes() == pre[k].tobytes() for k in ("qpos", "qvel", "time", "act"))
    rec.viol(
      "keyframe:non-int32-key-array-fails-in-kernel-launch",
      f"reset_data_keyframe(key=int64 array) passed the integer-dtype check and raised RuntimeError from wp.launch ({str(e)[:120]}); Data {'unchanged' if unchanged else 'MODIFIED'}",
    )
    rec.count("int64_key_runtime_error")
    arg = wp.array(keys.astype(np.int32), dtype=wp.int32)
    mjw.reset_data_keyframe(m, A, arg)
  post = _snap(A, names)

  # D: the property's definition executed by hand on the same history
  mjw.reset_data(m, D, wp.array(valid, dtype=bool))
  dD = _snap(D, KEYF)
  refs = {}
  for w in range(nworld):
    if valid[w]:
      k = int(keys[w])
      refs[w] = _mj_key_fields(mjm, k)
      dD["time"][w] = np.float32(mjm.key_time[k])
      dD["qpos"][w] = mjm.key_qpos[k].astype(np.float32)
      dD["qvel"][w] = mjm.key_qvel[k].astype(np.float32)
      if mjm.na:
        dD["act"][w] = mjm.key_act[k].astype(np.float32)
      if mjm.nu:
        dD["ctrl"][w] = mjm.key_ctrl[k].astype(np.float32)
      if mjm.nmocap:
        dD["mocap_pos"][w] = mjm.key_mpos[k].reshape(-1, 3).astype(np.float32)
        dD["mocap_quat"][w] = mjm.key_mquat[k].reshape(-1, 4).astype(np.float32)
  for f in KEYF:
    if dD[f].size:
      S.set_field(D, f, dD[f])
  postD = _snap(D, names)

  for w in range(nworld):
    if valid[w]:
      # (i) MuJoCo
      for f in KEYF + OTHER:
        rec.check()
        a = np.asarray(post[f][w]).reshape(-1)
        r = np.asarray(refs[w][f]).reshape(-1)
        if a.tobytes() != r.tobytes():
          idx = int(np.argmax(a != r)) if a.shape == r.shape else -1
          kind = "keyframe-field" if f in KEYF else "non-keyframe-field"
          rec.viol(f"keyframe:{f}-differs-from-mj_resetDataKeyframe", f"{kind} {f} of world {w} after key {int(keys[w])}: {a[idx] if idx >= 0 else a.shape} vs MuJoCo {r[idx] if idx >= 0 else r.shape} (form {form})")
      # (ii) equals reset_data + hand-written keyframe, every array
      for f in twin:
        rec.check()
        if post[f][w].tobytes() != postD[f][w].tobytes():
          rec.viol(f"keyframe:differs-from-reset_data-plus-keyframe:{f}", f"{f} of world {w} (key {int(keys[w])}, form {form}) differs from reset_data(mask)+keyframe fields written by hand")
    else:
      # (iii) untouched
      for f in names:
        rec.check()
        if post[f][w].tobytes() != pre[f][w].tobytes():
          rec.viol(f"keyframe:invalid-key-world-modified:{f}", f"{f} of world {w} with invalid key {int(keys[w])} changed (form {form}, keys {keys.tolist()})")
      rec.check()
      ca = S.world_contacts(A, w)
      ok, why = S.contacts_equal(ca, conB[w])
      if not ok:
        rec.viol(
          "reset:partial-mask-corrupts-unselected-contacts",
          f"world {w} with invalid key {int(keys[w])} reported {len(conB[w]['dist'])} contacts before reset_data_keyframe(keys {keys.tolist()}) and {len(ca['dist'])} after ({why})",
        )
        rec.count("F3_untouched_world_contacts")

  # trajectories
  live = {w: True for w in range(nworld)}
  for t in range(T):
    inp = S.sample_inputs(mjm, rng, nworld)
    C13.step_all(m, (A, B, D), inp)
    sa, sb, sd = _snap(A, C13.TRAJ), _snap(B, C13.TRAJ), _snap(D, C13.TRAJ)
    for w in range(nworld):
      if not live[w]:
        continue
      if C13.overflowed((A, D) if valid[w] else (A, B), w):
        live[w] = False
        rec.count("traj_stopped_at_capacity_overflow")
        continue
      if valid[w]:
        r = C13._compare_step(rec, sa, sd, S.world_contacts(A, w), S.world_contacts(D, w), w, f"keyframe world {w} vs reset_data+keyframe by hand, step {t} (form {form})", "traj-keyframe:")
        rec.count("traj_valid_" + r)
      else:
        r = C13._compare_step(rec, sa, sb, S.world_contacts(A, w), S.world_contacts(B, w), w, f"invalid-key world {w} vs control, step {t} (form {form})", "traj-untouched:")
        rec.count("traj_untouched_" + r)
      if r != "bit":
        live[w] = False

  rec.cover("form:" + form, 1)
  rec.cover("worlds_valid_key", int(valid.sum()))
  rec.cover("worlds_invalid_key", int((~valid).sum()))
  rec.cover("invalid_values", [str(int(k)) for k in keys[~valid]])
  moved = all(np.abs(pre["qpos"][w] - np.asarray(mjm.qpos0, np.float32)).max() > 1e-4 for w in range(nworld))
  if moved and valid.any():
    rec.nontrivial(xml, form, keys, *[s["qpos"] for s in states])
  return {"nworld": nworld, "form": form, "keys": keys.tolist(), "H": H}


def run_case(case):
  import mujoco_warp as mjw

  rec = core.Rec(case)
  rng = np.random.default_rng(case["seed"] + 7)
  if case["seed"] % 3 == 0:
    # few actuators, each with a multi-dimensional activation: guarantees na > nu
    P = dict(PROFILE, actuators=0)
    xml, mjm, feat = S.build(case["seed"], P, user_act=2, delay_act=int(rng.integers(0, 2)), delay_sens=int(rng.integers(0, 2)), plain_motor=0, nkey=case["nkey"])
  else:
    xml, mjm, feat = S.build(case["seed"], PROFILE, user_act=int(rng.integers(0, 3) > 0), delay_act=int(rng.integers(0, 2)), delay_sens=int(rng.integers(0, 2)), plain_motor=1, nkey=case["nkey"])
  if mjm is None or mjm.nkey == 0:
    rec.rejected = "mujoco compile"
    return rec.result()
  try:
    m = mw.put_model(mjm)
  except (NotImplementedError, ValueError) as e:
    rec.rejected = f"put_model: {e}"[:200]
    return rec.result()
  for f in feat:
    rec.cover("features", f)
  rec.cover("nkey", str(mjm.nkey))
  if mjm.na > mjm.nu:
    rec.cover("models_na_gt_nu", 1)
  if mjm.nmocap:
    rec.cover("models_with_mocap", 1)
  samples = []
  for sc in range(case["nscen"]):
    s = _scenario(rec, mjm, m, xml, rng, FORMS[(sc + case["seed"]) % len(FORMS)])
    if s:
      samples.append(s)
  d = mjw.make_data(mjm, nworld=3)
  S.set_field(d, "qpos", np.stack([gen.sample_state(mjm, rng)["qpos"] for _ in range(3)]))
  _bad_keys(rec, m, d, 3, mjm.nkey)
  rec.sample = {"model": f"generated seed {case['seed']}", "nkey": mjm.nkey, "nq": mjm.nq, "nu": mjm.nu, "na": mjm.na, "nmocap": mjm.nmocap, "scenarios": samples[:3]}
  return rec.result()


def requirements(agg, tier):
  unmet = []
  cov = agg["cover"]
  for f in FORMS:
    if cov.get("form:" + f, 0) < 5:
      unmet.append(f"key form {f} exercised fewer than 5 times")
  if cov.get("worlds_valid_key", 0) < 50 or cov.get("worlds_invalid_key", 0) < 50:
    unmet.append("fewer than 50 valid-key or invalid-key worlds observed")
  if len(cov.get("nkey", [])) < 4:
    unmet.append("fewer than 4 distinct keyframe counts")
  if cov.get("models_with_mocap", 0) < 5 or cov.get("models_na_gt_nu", 0) < 3:
    unmet.append("too few models with mocap bodies / na>nu")
  if agg["tally"].get("bad_key_rejected", 0) < 20:
    unmet.append("invalid scalar keys / shapes probed fewer than 20 times")
  t = agg["tally"]
  if t.get("traj_valid_bit", 0) + t.get("traj_valid_round", 0) < 150 or t.get("traj_untouched_bit", 0) + t.get("traj_untouched_round", 0) < 150:
    unmet.append("fewer than 150 post-reset world-steps judged for valid-key or for untouched worlds")
  if agg["distinct"] < 30:
    unmet.append("fewer than 30 distinct non-trivial cases")
  return unmet
