"""C06 Constrained acceleration is the convex-cost optimum.

Runtime monitor with two float64 certificates evaluated after mjw.forward():
 (i)  self-certificate, ungated and deciding: MuJoCo's documented constraint cost law (numpy, mon/props/_efc.py) is
      evaluated on MJWarp's OWN rows at MJWarp's qacc: reported efc.force/efc.state must be the ones the law implies,
      qfrc_constraint = J^T force, and the cost at qacc must not exceed the float64 optimum of that same problem (own
      Newton solve with exact line search) by more than K*tolerance in the solver's scaling plus the float32 floor.
 (ii) MuJoCo certificate, gated: the cost of MJWarp's qacc in MuJoCo's problem for the same state versus MuJoCo's own
      optimum (tolerance 1e-12), with the noise floor measured by re-solving MuJoCo on +-2ulp perturbed states.
The numpy law is itself checked against MuJoCo in every gated case (law(jar_mj) == efc_force of mj_forward).
"""

import os

import mujoco
import numpy as np

from mon import cmp, core, gen, mw, sched
from mon.props import _efc as E
from mon.props import _scenes as S

ID = "C06"
LEVEL = "exploration"
RULE = (
  "case=(kind,seed): generated constraint scene (equalities, friction loss, limits, contacts condim 1/3/4/6, margins, "
  "adhesion), pile of 3..8 free bodies, closed loop chain, or a repository model; state random or settled by 30/150 MuJoCo "
  "steps; 3 worlds with cold / hostile random / near-optimal warmstart; forward() twice (second call warm-started from the "
  "first solution); 'optb' family: 6 worlds of bodies sliding on a plane with per-world Model.opt.impratio_invsqrt / tolerance / "
  "ls_tolerance, stat.meaninertia and geom_friction batched with mutually different leading sizes (1,2,3,6), tight next to "
  "loose tolerances, every world certified with its own values and against a MuJoCo model carrying them. Newton+CG, pyramidal+elliptic, dense+sparse, WARMSTART on/off. Non-trivial: >=1 judged world with "
  ">=3 active rows and solver_niter>=1; distinct by hash(xml, qpos, qvel)."
)
ASSUMPTIONS = [
  "the numpy cost law in mon/props/_efc.py is MuJoCo's (self-tested per gated case against mj_forward's efc_force to 1e-9)",
  "worlds with ITERATIONS / LS_ITERATIONS overflow bits or nefc>njmax are not judged (C25/C16 own those)",
  "optimality is judged through the cost gap to the float64 optimum of MJWarp's own rows, scaled by meaninertia*max(1,nv) "
  "like the solver's tolerance test; allowance K*tolerance (K=30 Newton, 1000 CG: CG stops on 'improvement<tolerance', "
  "MuJoCo's CG at the same tolerance leaves gaps of the same size) + the float32 gradient-evaluation floor",
  "MuJoCo comparison only under the gating rule (same row counts, contacts matched to 2e-5 in position/distance and 2e-5 "
  "in frame, no MuJoCo warning, structure stable under the +-2ulp probe); allowance K*tolerance + 50^2 * measured gap of "
  "MuJoCo's own optimum under the probe (a gap is quadratic in the perturbation)",
  "rows with an identically zero Jacobian are left out of the cost (constants up to 1e17 with D=1/mjMINVAL); worlds with a "
  "LIVE row at D>=1e12 (invweight0==0: Hessian condition >=1e15, not representable in float32) are tallied, not judged",
  "worlds whose Hessian M + J^T D J (at qacc_smooth) has condition number > 5e6 (about 1/eps32) are tallied, not judged",
  "float32 floor: Jaref/Ma are accumulated from the start point of the solve, so the round-off terms use max(|qacc|, "
  "|warmstart|, |qacc_smooth|) (a hostile warmstart of 1e4 leaves 1e4*eps32 in jar for the whole solve)",
]
BUDGET = {"quick": 300, "thorough": 1500}

K_TOL = {"Newton": 30.0, "CG": 1000.0}
C_FORCE = 64.0  # float32 allowance (in eps32 * magnitude of the terms summed) for efc.force
C_GRADNOISE = 8.0  # float32 gradient-evaluation floor multiplier (enters the gap squared)
GATE_POS = 2e-5  # contact position / distance agreement required for the MuJoCo certificate
GATE_FRAME = 2e-5
ROW_REL = 2e-5  # float32-level row differences tolerated by the MuJoCo certificate (C05 judges the rows themselves)
COND_MAX = 5e6  # worlds whose Hessian condition number exceeds this (~1/eps32) are tallied, not judged
SMOOTH_REL = 1e-4  # float32 evaluation allowance for qfrc_smooth / M qacc inside the MuJoCo certificate

BASE = dict(
  nbody=(3, 7),
  collide=True,
  contact_rich=True,
  p_plane=0.8,
  equality=3,
  p_limit=0.5,
  p_frictionloss=0.4,
  tendon_fixed=0.5,
  tendon_spatial=0.4,
  condims=(1, 3, 4, 6),
  cones=("pyramidal", "elliptic"),
  solvers=("Newton", "CG"),
  jacobians=("dense", "sparse", "auto"),
  p_margin=0.3,
  p_adhesion=0.1,
  flags_disable=("warmstart",),
)
PROFILE_X = gen.profile(geoms=("sphere", "capsule", "ellipsoid", "box", "cylinder"), **BASE)
PROFILE_U = gen.profile(geoms=("sphere", "capsule"), **BASE)  # analytic narrowphase in both engines: gateable
REPO_MODELS = ["humanoid/humanoid.xml", "constraints.xml", "collision.xml"]
NJMAX = (64, 192, 448)


def cases(tier, seed):
  out = []
  ngen = 60 if tier == "quick" else 1200
  npile = 24 if tier == "quick" else 400
  nloop = 24 if tier == "quick" else 400
  for i in range(ngen):
    out.append({"id": f"gen{seed}_{i}", "kind": "gen", "seed": seed * 100000 + i, "settle": (0, 30, 150)[i % 3], "exact_geoms": int(i % 2 == 0)})
  combos = [(c, s, j) for c in ("pyramidal", "elliptic") for s in ("Newton", "CG") for j in ("dense", "sparse")]
  for i in range(npile):
    c, s, j = combos[i % 8]
    out.append({"id": f"pile{seed}_{i}", "kind": "pile", "seed": seed * 100000 + 50000 + i, "n": (3, 4, 5, 8)[(i // 8) % 4], "cone": c, "solver": s, "jac": j, "settle": (150, 40, 0)[i % 3], "weight": 2, "exact_geoms": int((i // 8) % 2 == 0)})
  for i in range(nloop):
    c, s, j = combos[(i + 3) % 8]
    out.append({"id": f"loop{seed}_{i}", "kind": "loop", "seed": seed * 100000 + 70000 + i, "n": (2, 3, 4, 6)[(i // 8) % 4], "cone": c, "solver": s, "jac": j, "settle": (0, 30)[i % 2], "exact_geoms": 1})
  # serial arms with dry friction and strongly violated limits, cold start: one Newton step can throw a friction row
  # from one linear zone straight into the other (never QUADRATIC) -- the stable-state fast path must notice
  for i in range(24 if tier == "quick" else 400):
    # mostly Newton + pyramidal: the only configuration with incremental Hessian updates and the stable-state fast path
    out.append(
      {
        "id": f"arm{seed}_{i}",
        "kind": "arm",
        "seed": seed * 100000 + 80000 + i,
        "n": 2 + i % 3,
        "cone": "elliptic" if i % 6 == 5 else "pyramidal",
        "solver": "CG" if i % 8 == 7 else "Newton",
        "jac": ("dense", "sparse")[(i // 3) % 2],
        "settle": 0,
        "exact_geoms": 1,
      }
    )
  # per-world (batched) solver options: 6 worlds of bodies sliding on a plane; Model.opt.impratio_invsqrt / tolerance /
  # ls_tolerance, Model.stat.meaninertia and Model.geom_friction are batched with DIFFERENT leading sizes (a permutation of
  # 1, 2, 3, 6); world w is certified with ITS OWN option values and against a MuJoCo model carrying them
  ocombos = [("elliptic", "Newton", "dense"), ("elliptic", "Newton", "sparse"), ("elliptic", "CG", "dense"), ("pyramidal", "Newton", "sparse"), ("elliptic", "CG", "sparse"), ("pyramidal", "CG", "dense")]
  ob = []
  for i in range(24 if tier == "quick" else 300):
    c, s, j = ocombos[i % 6]
    ob.append({"id": f"optb{seed}_{i}", "kind": "optb", "seed": seed * 100000 + 60000 + i, "n": (3, 4, 5)[(i // 6) % 3], "cone": c, "solver": s, "jac": j, "settle": (0, 4)[(i // 2) % 2], "weight": 3, "exact_geoms": int(i % 3 != 2)})
  for k, p in enumerate(REPO_MODELS):
    for r in range(2 if tier == "quick" else 12):
      c, s, j = combos[(k * 3 + r) % 8]
      out.append({"id": f"repo{seed}_{k}_{r}", "kind": "repo", "path": p, "seed": seed * 100000 + 90000 + r, "cone": c, "solver": s, "jac": j, "settle": (40, 0)[r % 2], "weight": 2, "exact_geoms": int(k == 0)})
  return ob + out


OPTB_NWORLD = 6
OPTB_LENS = (1, 2, 3, 6)  # divisors of OPTB_NWORLD: leading sizes of the batched option arrays


def slide_xml(rng, n, cone, solver, jac, kinds):
  """n free bodies resting (slightly interpenetrating) side by side on a frictional plane, optionally one more stacked on
  the first; the states give them tangential velocities, so that frictional contacts sit on the cone surface."""
  ts = rng.choice([0.002, 0.004, 0.005])
  out = ["<mujoco>", f'  <option timestep="{ts}" cone="{cone}" solver="{solver}" jacobian="{jac}" iterations="100" ls_iterations="50"/>', "  <worldbody>"]
  out.append(f'    <geom name="floor" type="plane" size="0 0 1" condim="{(3, 3, 4, 6)[rng.integers(4)]}" friction="{rng.uniform(0.3, 1.2):.3g} {rng.uniform(0.003, 0.02):.3g} {rng.uniform(0.0005, 0.005):.3g}"/>')
  stack = n >= 4 and rng.random() < 0.5
  h0 = 0.0
  for i in range(n):
    k = kinds[rng.integers(len(kinds))]
    r = rng.uniform(0.06, 0.12)
    euler = ""
    if k == "sphere":
      size, h = f"{r:.4g}", r
    elif k == "capsule":
      size, h = f"{0.7 * r:.4g} {r:.4g}", 0.7 * r
      euler = ' euler="0 90 0"' if rng.random() < 0.5 else ' euler="90 0 0"'
    elif k == "cylinder":
      size, h = f"{r:.4g} {0.8 * r:.4g}", 0.8 * r
    else:  # box / ellipsoid
      size, h = f"{r:.4g} {r * rng.uniform(0.6, 1.2):.4g} {0.8 * r:.4g}", 0.8 * r
    pen = rng.uniform(0.0003, 0.003)
    if stack and i == n - 1:
      pos = (rng.normal() * 0.01, rng.normal() * 0.01, 2 * h0 + h - 2 * pen)
    else:
      pos = (0.4 * (i % 3) + rng.normal() * 0.01, 0.4 * (i // 3) + rng.normal() * 0.01, h - pen)
    if i == 0:
      h0 = h
    cd = (3, 3, 4, 6)[rng.integers(4)]
    fr = f"{rng.uniform(0.2, 1.5):.3g} {rng.uniform(0.002, 0.02):.3g} {rng.uniform(0.0005, 0.01):.3g}"
    sol = f' solref="{rng.uniform(0.005, 0.04):.3g} {rng.uniform(0.7, 1.3):.3g}"' if rng.random() < 0.3 else ""
    out.append(f'    <body name="s{i}" pos="{pos[0]:.4g} {pos[1]:.4g} {pos[2]:.5g}"><freejoint/><geom type="{k}" size="{size}"{euler} condim="{cd}" friction="{fr}" density="{rng.uniform(300, 3000):.4g}"{sol}/></body>')
  out += ["  </worldbody>", "</mujoco>"]
  return "\n".join(out)


def batch_options(rng, mjm, m, nworld):
  """Gives every world its own solver options: Model.opt.impratio_invsqrt, opt.tolerance, opt.ls_tolerance,
  stat.meaninertia (the solver's scaling of its tolerance test) and geom_friction become batched arrays whose leading
  sizes differ from one another. Returns (per-world MuJoCo models carrying world w's values, {field: leading size})."""
  import copy

  import warp as wp

  perm = [int(x) for x in rng.permutation(OPTB_LENS)]
  lens = {"impratio_invsqrt": perm[0], "tolerance": perm[1], "ls_tolerance": perm[2], "meaninertia": perm[3], "geom_friction": int(rng.choice(OPTB_LENS))}
  if lens["impratio_invsqrt"] == 1 and rng.random() < 0.7:
    # the friction-to-normal impedance ratio is the option the cone cost itself depends on: mostly keep it per-world
    other = [k for k in ("tolerance", "ls_tolerance", "meaninertia") if lens[k] > 1][int(rng.integers(3))]
    lens["impratio_invsqrt"], lens[other] = lens[other], 1
  imp = np.exp(rng.uniform(np.log(0.3), np.log(30.0), size=lens["impratio_invsqrt"]))
  # tolerances: tight entries next to very loose ones (a world that stops on ANOTHER world's loose tolerance, or whose
  # cost is scaled with another world's meaninertia, ends up far outside its own tolerance -- otherwise Newton's quadratic
  # convergence hides which entry was read)
  tol = 10.0 ** rng.uniform(-10, -6, size=lens["tolerance"])
  if tol.size > 1:
    loose = rng.random(tol.size) < 0.35
    if not loose.any() or loose.all():
      loose[:] = False
      loose[int(rng.integers(tol.size))] = True
    tol = np.where(loose, 10.0 ** rng.uniform(-3, -1, size=tol.size), tol)
  lstol = 10.0 ** rng.uniform(-2.5, -1, size=lens["ls_tolerance"])
  mi = float(mjm.stat.meaninertia) * 10.0 ** rng.uniform(-1, 1, size=lens["meaninertia"])
  fri = np.array(mjm.geom_friction)[None] * np.exp(rng.uniform(np.log(0.5), np.log(2.0), size=(lens["geom_friction"], mjm.ngeom, 1)))
  inv32 = (1.0 / np.sqrt(imp)).astype(np.float32)
  tol32, ls32, mi32, fri32 = tol.astype(np.float32), lstol.astype(np.float32), mi.astype(np.float32), fri.astype(np.float32)
  m.opt.impratio_invsqrt = wp.array(inv32, dtype=float)
  m.opt.tolerance = wp.array(tol32, dtype=float)
  m.opt.ls_tolerance = wp.array(ls32, dtype=float)
  m.stat.meaninertia = wp.array(mi32, dtype=float)
  m.geom_friction = wp.array(fri32, dtype=wp.vec3)
  for a in (m.opt.impratio_invsqrt, m.opt.tolerance, m.opt.ls_tolerance, m.stat.meaninertia, m.geom_friction):
    a._is_batched = True
  models = []
  for w in range(nworld):
    mm = copy.copy(mjm)
    mm.opt.impratio = 1.0 / float(inv32[w % inv32.size]) ** 2
    mm.opt.tolerance = float(tol32[w % tol32.size])
    mm.opt.ls_tolerance = float(ls32[w % ls32.size])
    mm.stat.meaninertia = float(mi32[w % mi32.size])
    mm.geom_friction[:] = fri32[w % fri32.shape[0]]
    models.append(mm)
  return models, lens


def build(case, rng):
  if case["kind"] == "optb":
    kinds = ("sphere", "capsule") if case["exact_geoms"] else ("sphere", "capsule", "box", "ellipsoid", "cylinder")
    xml = slide_xml(rng, case["n"], case["cone"], case["solver"], case["jac"], kinds)
    return xml, gen.compile_xml(xml), ["scene:slide-per-world-options"]
  if case["kind"] == "gen":
    xml, mjm, feat, _ = gen.make_model(case["seed"], PROFILE_U if case["exact_geoms"] else PROFILE_X)
    return xml, mjm, feat or []
  if case["kind"] == "pile":
    kinds = ("sphere", "capsule") if case["exact_geoms"] else ("sphere", "capsule", "box", "ellipsoid", "cylinder")
    xml = S.pile_xml(rng, case["n"], case["cone"], case["solver"], case["jac"], kinds=kinds, adhesion=0.15)
    return xml, gen.compile_xml(xml), ["scene:pile"]
  if case["kind"] == "loop":
    xml = S.loop_xml(rng, case["n"], case["cone"], case["solver"], case["jac"])
    return xml, gen.compile_xml(xml), ["scene:loop"]
  if case["kind"] == "arm":
    n = case["n"]
    grav = "0 0 0" if rng.random() < 0.5 else "0 0 -9.81"
    body, close = "", ""
    for k in range(n):
      fl = f' frictionloss="{rng.uniform(0.5, 4):.3g}"' if (k == 0 or rng.random() < 0.5) else ""
      lim = f' limited="true" range="{-rng.uniform(0.3, 0.7):.3g} {rng.uniform(0.3, 0.7):.3g}"' if (k == n - 1 or rng.random() < 0.5) else ""
      axis = ("0 1 0", "0 0 1", "1 0 0")[int(rng.integers(3))] if k else "0 1 0"
      body += f'<body pos="{0.4 if k else 0} 0 0"><joint name="a{k}" type="hinge" axis="{axis}"{fl}{lim}/><geom type="capsule" fromto="0 0 0 0.4 0 0" size="0.03" mass="{rng.uniform(0.5, 2):.3g}" contype="0" conaffinity="0"/>'
      close += "</body>"
    xml = (
      f'<mujoco><option gravity="{grav}" solver="{case["solver"]}" cone="{case["cone"]}" jacobian="{case["jac"]}" tolerance="1e-10" iterations="100">'
      f'<flag warmstart="disable"/></option><worldbody>{body}{close}</worldbody></mujoco>'
    )
    return xml, gen.compile_xml(xml), ["scene:arm-frictionloss-limits-coldstart"]
  path = os.path.join(core.TEST_DATA, case["path"])
  mjm = mujoco.MjModel.from_xml_path(path)
  mjm.opt.cone = {"pyramidal": mujoco.mjtCone.mjCONE_PYRAMIDAL, "elliptic": mujoco.mjtCone.mjCONE_ELLIPTIC}[case["cone"]]
  mjm.opt.solver = {"Newton": mujoco.mjtSolver.mjSOL_NEWTON, "CG": mujoco.mjtSolver.mjSOL_CG}[case["solver"]]
  mjm.opt.jacobian = {"dense": mujoco.mjtJacobian.mjJAC_DENSE, "sparse": mujoco.mjtJacobian.mjJAC_SPARSE}[case["jac"]]
  return case["path"], mjm, ["repo:" + case["path"]]


def certificate_i(rec, P, ovf, niter, solver, tag, ctx, start=None):
  """Self-certificate on MJWarp's own rows. Returns dict(a_opt, cost_opt, gap ratio) or None when not judged."""
  n, nv = P["n"], P["nv"]
  a32 = P["qacc"]
  rec.check()
  if not np.all(np.isfinite(a32)):
    rec.viol("qacc:nonfinite", f"qacc not finite {ctx}")
    return None
  if P["cone_bad"]:
    rec.viol("elliptic_rows:not_one_block_per_contact", f"elliptic rows of contacts {P['cone_bad']} are not one consecutive block of condim rows {ctx}")
    return None
  g, cost, force, state, jar = E.grad_cost(P, a32)
  start = np.abs(P["qacc_smooth"]) if start is None else np.maximum(np.abs(start), np.abs(P["qacc_smooth"]))
  jar_mag, grad_mag = E.noise_terms(P, a32, force, start=start)
  # ---- (c) reported force / state are the ones implied by qacc
  if n:
    fb = C_FORCE * E.EPS32 * (P["D"] * jar_mag + np.abs(force)) + 1e-12
    # rows of one elliptic contact share the largest bound of the block (their forces are coupled)
    for c in range(P["cone_idx0"].size):
      rs = [int(P["cone_idx0"][c])] + [int(r) for r in P["cone_idxT"][c] if r >= 0]
      fb[rs] = fb[rs].max() * (1.0 + 1.0 / max(P["cone_mu"][c], 1e-3))
    ferr = np.abs(force - P["force"])
    ratio = ferr / fb
    rec.check()
    i = int(np.argmax(ratio))
    rec.worst(f"force_vs_law:{tag}", float(ratio[i]))
    if not np.all(np.isfinite(P["force"])):
      rec.viol("efc.force:nonfinite", f"efc.force not finite {ctx}")
    elif ratio[i] > cmp.VIOL_FACTOR:
      rec.viol(
        f"efc.force!=law(qacc):{E.TYPE_NAME[P['type'][i]]}",
        f"row {i} ({E.TYPE_NAME[P['type'][i]]}, id {P['id'][i]}): efc.force={P['force'][i]:.6g} but the cost law at qacc gives {force[i]:.6g} (jar={jar[i]:.6g}, D={P['D'][i]:.4g}, bound {fb[i]:.3g}) {ctx}",
        row=i,
        state_reported=int(P["state"][i]),
        state_law=int(state[i]),
      )
    elif ratio[i] > 1:
      rec.inconcl("force vs law in grey zone")
    # state: a mismatch is only meaningful away from the zone boundary; force agreement is the sharp test, so a state
    # that disagrees while the implied force differs from the reported one by more than the bound is reported above.
    mism = np.nonzero(state != P["state"])[0]
    rec.check()
    for r in mism:
      # distance to the nearest zone boundary in units of the float32 uncertainty of jar
      unc = 64 * E.EPS32 * jar_mag[r] + 1e-30
      t = P["type"][r]
      if t in (E.T_FDOF, E.T_FTEN):
        rf = P["frictionloss"][r] / P["D"][r] if P["D"][r] > 0 else 0.0
        dist = min(abs(jar[r] - rf), abs(jar[r] + rf))
      elif t == E.T_CELL:
        c = [k for k in range(P["cone_idx0"].size) if r == P["cone_idx0"][k] or r in P["cone_idxT"][k]]
        if not c:
          continue
        c = c[0]
        rs = [int(x) for x in P["cone_idxT"][c] if x >= 0]
        mu = P["cone_mu"][c]
        N = jar[P["cone_idx0"][c]] * mu
        T = float(np.sqrt(np.sum((jar[rs] * P["cone_fr"][c][: len(rs)]) ** 2)))
        dist = min(abs(N - mu * T), abs(mu * N + T)) / max(mu, 1.0)
        unc = 64 * E.EPS32 * float(max(jar_mag[P["cone_idx0"][c]], jar_mag[rs].max())) * max(1.0, float(P["cone_fr"][c].max()))
      else:
        dist = abs(jar[r])
      rec.worst(f"state_boundary_distance:{tag}", dist / (30 * unc))
      if dist > 30 * unc:
        rec.viol(f"efc.state!=law(qacc):{E.TYPE_NAME[t]}", f"row {r} ({E.TYPE_NAME[t]}): efc.state={P['state'][r]} but the law at qacc gives {state[r]} (jar={jar[r]:.6g}, {dist / unc:.3g} uncertainties from the zone boundary) {ctx}", row=int(r))
      else:
        rec.count("state_ties_at_zone_boundary")
  # ---- (a)/(b) optimality
  a_opt, info = E.solve64(P, a32)
  gmax = max(1e-300, float(grad_mag.max()))

  def unconverged(inf):
    # float64 gradient at the reference optimum relative to the magnitude of the terms it sums (absolute fallback)
    return (not np.isfinite(inf["cost"])) or (float(np.abs(inf["grad"]).max()) > 1e-9 * gmax and inf["gradnorm"] / P["scale"] > 1e-9)

  if unconverged(info):
    # retry from the unconstrained acceleration
    a_opt2, info2 = E.solve64(P, P["qacc_smooth"], iters=150)
    if np.isfinite(info2["cost"]) and (not np.isfinite(info["cost"]) or info2["cost"] < info["cost"]):
      a_opt, info = a_opt2, info2
  if unconverged(info):
    rec.inconcl("float64 reference optimum did not converge")
    rec.count("ref_optimum_not_converged")
    return None
  gopt = info["gradnorm"] / P["scale"]
  gap = (cost - info["cost"]) / P["scale"]
  eg = C_GRADNOISE * E.EPS32 * grad_mag
  try:
    floor = 0.5 * float(eg @ np.linalg.solve(info["H"], eg)) / P["scale"]
  except np.linalg.LinAlgError:
    floor = np.inf
  # the float64 optimum itself is only known to |grad| precision
  floor += 10 * gopt * float(np.abs(a32 - a_opt).max()) + 1e-15
  # float64 cancellation when the two costs are differenced
  cost_mag = 0.5 * float(np.abs(a32) @ (np.abs(P["M"]) @ np.abs(a32))) + float(np.abs(P["qfrc_smooth"]) @ np.abs(a32)) + abs(cost) + abs(info["cost"])
  floor += 1e-13 * cost_mag / P["scale"]
  tol = P["tolerance"]
  bound = K_TOL[solver] * tol + floor
  ratio = gap / bound
  rec.check()
  rec.worst(f"cost_gap:{solver}:{tag}", ratio)
  rec.worst(f"info:cost_gap/tol:{solver}", gap / tol)
  rec.worst(f"info:scaled_grad/tol:{solver}", float(np.sqrt(g @ g)) / P["scale"] / tol)
  if floor > 100 * K_TOL[solver] * tol:
    rec.count("worlds_float32_floor_dominates")
  if ratio > cmp.VIOL_FACTOR:
    rec.viol(
      f"cost_gap:{solver}",
      f"cost at qacc exceeds the float64 optimum of MJWarp's own rows by {gap:.3g} (scaled; tolerance {tol:g}, float32 floor {floor:.3g}, {ratio:.3g}x bound) after {niter} iterations, |qacc-opt|={np.abs(a32 - a_opt).max():.3g} {ctx}",
      qacc=a32[:8],
      opt=a_opt[:8],
    )
  elif ratio > 1:
    rec.inconcl("cost gap between bound and violation line")
    rec.count("grey_zone_gap")
  return {"a_opt": a_opt, "cost_opt": info["cost"], "gap": gap, "nactive": int((force != 0).sum())}


def mujoco_reference(mjm, st, seed):
  """State-only part of certificate (ii): MuJoCo's problem, optimum and probe noise. None + reason when unusable."""
  mj = E.mj_optimum(mjm, st, tol=1e-12, iters=300, solver=mujoco.mjtSolver.mjSOL_NEWTON)
  if int(np.max(mj.solver_niter)) >= 300 or np.any(np.array(mj.warning.number) > 0) or not np.all(np.isfinite(mj.qacc)):
    return None, "ungated:mujoco_iteration_limit_or_warning"
  Pj = E.problem_mj(mjm, mj)
  gj, cstar, fj, sj, jj = E.grad_cost(Pj, Pj["qacc"])
  lerr = 0.0
  if Pj["n"]:
    lerr = float(np.abs(fj - Pj["force"]).max()) / max(1.0, float(np.abs(fj).max()))
  prng = np.random.default_rng(seed)
  noise = 0.0
  for _ in range(3):
    mp = E.mj_optimum(mjm, cmp.perturb_state(st, prng), tol=1e-12, iters=300, solver=mujoco.mjtSolver.mjSOL_NEWTON)
    if mp.nefc != mj.nefc or mp.ncon != mj.ncon:
      return None, "ungated:structure_unstable_under_probe"
    noise = max(noise, (E.grad_cost(Pj, np.array(mp.qacc))[1] - cstar) / Pj["scale"])
  # float32 evaluation error of the smooth inputs (qfrc_smooth, M qacc) is not an input perturbation, so the ulp probe
  # cannot see it: allow 1e-4 of their largest magnitude (C02 judges those fields themselves) and convert it to a cost gap
  H = E.grad_cost(Pj, Pj["qacc"], want_hess=True)[5]
  eg = np.full(mjm.nv, SMOOTH_REL * (float(np.abs(Pj["qfrc_smooth"]).max()) + float((np.abs(Pj["M"]) @ np.abs(Pj["qacc"])).max())))
  try:
    smooth_floor = 0.5 * float(eg @ np.linalg.solve(H, eg)) / Pj["scale"]
  except np.linalg.LinAlgError:
    return None, "ungated:singular_hessian"
  # float32-level differences between the two engines' rows (what C05 allows: 5e-5 relative in J and aref, 2e-4 in D) move
  # the optimum; with forces of 1e6 a 3e-5 difference of a contact normal is a gradient difference of 1e2. Convert the
  # allowed row differences into a gradient difference at MuJoCo's optimum and then into a cost gap.
  if Pj["n"]:
    aJ = np.abs(Pj["J"])
    rs = np.maximum(1.0, aJ.max(axis=1))
    djar = ROW_REL * rs * float(np.abs(Pj["qacc"]).sum()) + ROW_REL * np.maximum(1.0, np.abs(Pj["aref"]))
    live = ((jj - djar) < 0) | (Pj["type"] <= E.T_FTEN) | (fj != 0)
    df = (Pj["D"] * djar + 4 * ROW_REL * Pj["D"] * np.abs(jj)) * live * ~Pj["inert"]
    dg = aJ.T @ df + ((aJ > 0) * (ROW_REL * rs)[:, None]).T @ np.abs(fj)
    try:
      smooth_floor += 0.5 * float(dg @ np.linalg.solve(H, dg)) / Pj["scale"]
    except np.linalg.LinAlgError:
      return None, "ungated:singular_hessian"
  return {"Pj": Pj, "cstar": cstar, "noise": max(noise, 0.0), "lawerr": lerr, "con": E.mj_contacts(mj), "smooth_floor": smooth_floor}, "ok"


def certificate_ii(rec, R, P, con, solver):
  """MuJoCo certificate under the gating rule. Returns (status, ratio, xgap, dq)."""
  Pj = R["Pj"]
  rows = P["rows"]
  if (rows["ne"], rows["nf"], rows["nl"], rows["nefc_raw"]) != (Pj["rows"]["ne"], Pj["rows"]["nf"], Pj["rows"]["nl"], Pj["n"]):
    return "ungated:row_counts_differ", None, None, None
  # contact geometry must agree to float32 level, otherwise the two engines solve (legitimately) different problems
  csel = np.nonzero((con["type"] & 1) > 0)[0]
  rc = R["con"]
  cmap, cok = E.match_contacts(con["geom"][csel], con["pos"][csel], rc["geom"], rc["pos"], tol=GATE_POS)
  if not cok:
    return "ungated:contact_sets_or_positions_differ", None, None, None
  if len(csel):
    fd = float(np.abs(np.asarray(con["frame"][csel], dtype=np.float64).reshape(-1, 9) - rc["frame"][cmap]).max())
    dd = float(np.abs(np.asarray(con["dist"][csel], dtype=np.float64) - rc["dist"][cmap]).max())
    if fd > GATE_FRAME or dd > GATE_POS:
      return "ungated:contact_frames_differ", None, None, None
  if sorted(P["type"].tolist()) != sorted(Pj["type"].tolist()):
    return "ungated:row_types_differ", None, None, None
  a32 = P["qacc"]
  cx = E.grad_cost(Pj, a32)[1]
  xgap = (cx - R["cstar"]) / Pj["scale"]
  bound = K_TOL[solver] * P["tolerance"] + cmp.C_NOISE**2 * R["noise"] + R["smooth_floor"] + 1e-12
  dq = float(np.abs(a32 - Pj["qacc"]).max()) / max(1.0, float(np.abs(Pj["qacc"]).max()))
  return "gated", xgap / bound, xgap, dq


def run_case(case):
  import warp as wp

  import mujoco_warp as mjw

  rec = core.Rec(case)
  rng = np.random.default_rng(case["seed"] + 5)
  xml, mjm, feat = build(case, rng)
  if mjm is None:
    rec.rejected = "mujoco compile"
    return rec.result()
  try:
    m = mw.put_model(mjm)
  except (NotImplementedError, ValueError) as e:
    rec.rejected = f"put_model: {e}"[:200]
    rec.count("rejected_put_model")
    return rec.result()
  solver = "Newton" if mjm.opt.solver == mujoco.mjtSolver.mjSOL_NEWTON else "CG"
  cone = "elliptic" if mjm.opt.cone == mujoco.mjtCone.mjCONE_ELLIPTIC else "pyramidal"
  optb = case["kind"] == "optb"
  nworld = 12 if case["kind"] == "arm" else (OPTB_NWORLD if optb else 3)
  # per-world MuJoCo models: the same model for every world unless the case batches Model fields per world
  mj_models, blens = [mjm] * nworld, {}
  if optb:
    mj_models, blens = batch_options(np.random.default_rng(case["seed"] + 77), mjm, m, nworld)
  states = []
  for w in range(nworld):
    st = gen.sample_state(mjm, rng, vel=float(rng.choice([0.0, 0.3, 1.5])), quat_scale=False)
    if optb:
      # bodies stay where the scene put them (in contact); most of them slide / spin on the plane
      q = np.array(mjm.qpos0, dtype=np.float64)
      v = np.zeros(mjm.nv)
      for b in range(mjm.nv // 6):
        q[7 * b : 7 * b + 2] += rng.normal(size=2) * 0.003
        if rng.random() < 0.8:
          ang = rng.uniform(0, 2 * np.pi)
          v[6 * b : 6 * b + 2] = rng.uniform(0.3, 3.0) * np.array([np.cos(ang), np.sin(ang)])
        v[6 * b + 2] = -rng.uniform(0, 0.3)
        v[6 * b + 3 : 6 * b + 6] = rng.normal(size=3) * rng.choice([0.0, 1.0, 4.0])
      st["qpos"], st["qvel"] = q.astype(np.float32), v.astype(np.float32)
      st["qfrc_applied"] = (np.asarray(st["qfrc_applied"]) * 0.1).astype(np.float32)
      st["xfrc_applied"] = (np.asarray(st["xfrc_applied"]) * 0.1).astype(np.float32)
    if case["kind"] == "arm":
      # limited joints well beyond their range, velocities on the friction dofs
      q = np.array(st["qpos"], dtype=np.float64)
      for jn in range(mjm.njnt):
        if mjm.jnt_limited[jn]:
          lo, hi = mjm.jnt_range[jn]
          q[mjm.jnt_qposadr[jn]] = (hi + rng.uniform(0.1, 0.8)) if rng.random() < 0.5 else (lo - rng.uniform(0.1, 0.8))
      st["qpos"] = q.astype(np.float32)
      st["qvel"] = (rng.normal(size=mjm.nv) * rng.choice([0.5, 1.5, 3.0])).astype(np.float32)
    if case["kind"] in ("pile", "repo") and w < 2:
      st["qpos"] = (np.array(mjm.qpos0) + (rng.normal(size=mjm.nq) * 0.01 if w else 0)).astype(np.float32)
      st["qvel"] = (st["qvel"] * 0.1).astype(np.float32)
    st = S.settle(mj_models[w], st, case["settle"])
    states.append(st)
  # warmstarts: world 0 cold (zeros), world 1 hostile, world 2 near-optimal (MuJoCo's solution)
  try:
    ref_d = [E.mj_optimum(mj_models[w], st, tol=1e-10, iters=200) for w, st in enumerate(states)]
  except mujoco.FatalError as e:
    rec.rejected = f"mujoco fatal error on this state: {e}"[:120]
    return rec.result()
  if any((not np.all(np.isfinite(r.qacc))) or np.abs(r.qacc).max() > 1e7 or np.any(np.array(r.warning.number) > 0) for r in ref_d):
    # the generated state is numerically degenerate for MuJoCo itself (diverged settling, singular loop): not a test
    rec.rejected = "degenerate state (MuJoCo reports a warning or |qacc|>1e7)"
    rec.count("rejected_degenerate_state")
    return rec.result()
  need = max(int(r.nefc) for r in ref_d)
  njmax = next((c for c in NJMAX if c >= need + need // 4 + 8), None)
  if njmax is None:
    rec.rejected = f"scene needs {need} rows"
    rec.count("rejected_too_many_rows")
    return rec.result()
  ncon_need = max(int(r.ncon) for r in ref_d)
  states[0]["qacc_warmstart"] = np.zeros(mjm.nv, np.float32)
  states[1]["qacc_warmstart"] = (rng.normal(size=mjm.nv) * 10.0 * max(1.0, float(np.abs(ref_d[1].qacc).max()))).astype(np.float32)
  states[2]["qacc_warmstart"] = np.array(ref_d[2].qacc, dtype=np.float32) if np.all(np.isfinite(ref_d[2].qacc)) else np.zeros(mjm.nv, np.float32)
  if optb and np.all(np.isfinite(ref_d[3].qacc)):
    states[3]["qacc_warmstart"] = np.array(ref_d[3].qacc, dtype=np.float32)  # near-optimal, like world 2; worlds 4, 5 cold
  for w in range(3, nworld):
    states[w].setdefault("qacc_warmstart", np.zeros(mjm.nv, np.float32))
  d = mw.make_data(mjm, m, states, njmax=njmax, nconmax=max(48, 2 * ncon_need + 8), njmax_nnz=njmax * mjm.nv)
  nontriv = False
  kernels = set()
  refs, first_ii, first_aref, first_i_ok = {}, {}, {}, {}
  prev_qacc = None
  warm_disabled = bool(mjm.opt.disableflags & mujoco.mjtDisableBit.mjDSBL_WARMSTART)
  gateable = bool(case.get("exact_geoms"))
  cw = [e for e in range(mjm.neq) if int(mjm.eq_type[e]) in (int(mujoco.mjtEq.mjEQ_CONNECT), int(mujoco.mjtEq.mjEQ_WELD))]
  # finding C05/A: connect/weld aref uses velocity-stage fields of the previous call; only relevant with motion
  stale_candidate = bool(cw) and any(np.any(s["qvel"] != 0) for s in states)
  for p in range(2):
    tag = ("first", "repeat")[p]
    mw.zero_overflow(d)
    sched.start_log(track_names=False)
    mjw.forward(m, d)
    log, _ = sched.stop_log()
    kernels |= {k.split("__")[0] for k, _ in log if "solve" in k or "update_gradient" in k or "linesearch" in k or "JT" in k or "cholesky" in k or "update_constraint" in k}
    ovf = mw.overflow(d)
    niter = mw.npy(d.solver_niter)
    for w in range(nworld):
      ctx = f"world {w} pass {tag} ({solver}, {cone}, {'sparse' if m.is_sparse else 'dense'})"
      rows = mw.efc_rows(mjm, m, d, w)
      nac = int(mw.npy(d.nacon)[0])
      if rows["nefc_raw"] > d.njmax or nac > d.naconmax or (int(ovf[w]) & (E.OVF_NEFC | E.OVF_NNZ | E.OVF_CONTACT)):
        rec.count("worlds_capacity_exceeded")
        continue
      if int(ovf[w]) & (E.OVF_ITER | E.OVF_LS):
        rec.count("worlds_iteration_limit(not judged)")
        rec.cover("iteration_limit:" + solver, 1)
        continue
      if not rows["J_ok"]:
        rec.viol("efc.J:sparse_structure", f"CSR structure out of range {ctx}")
        continue
      P = E.problem(mjm, m, d, w, rows)
      if P["n"] and np.any((P["D"] >= 1e12) & ~P["inert"]):
        # R clamped at mjMINVAL (invweight0 == 0) on a row that does act on the dofs: H has condition >= 1e15, which
        # float32 cannot represent -- a degenerate model, not a solver observation
        rec.count("worlds_not_judged:D=1/mjMINVAL_on_live_row")
        continue
      try:
        ev = np.linalg.eigvalsh(E.grad_cost(P, P["qacc_smooth"], want_hess=True)[5])
        cond = float(ev[-1] / ev[0]) if ev[0] > 0 else np.inf
      except np.linalg.LinAlgError:
        cond = np.inf
      if not (cond < COND_MAX):
        # the Newton Hessian M + J^T D J (at qacc_smooth) has a condition number beyond what float32 can factorise
        # (eps32^-1 ~ 1e7): stalls / NaNs there are precision limits of the representation, tallied but not judged
        rec.count("worlds_not_judged:hessian_condition>5e6")
        continue
      rec.worst("info:log10_hessian_condition/6.7", np.log10(max(cond, 1.0)) / 6.7)
      start = prev_qacc[w] if p else (None if warm_disabled else states[w]["qacc_warmstart"])
      nv0 = len(rec.violations)
      res = certificate_i(rec, P, int(ovf[w]), int(niter[w]), solver, tag, ctx, start=start)
      if p == 0:
        first_aref[w] = P["aref"].copy()
        first_i_ok[w] = res is not None and len(rec.violations) == nv0
      E.admissibility(rec, mjm, m, d, w, rows=rows, contact_force=False, sig_prefix="C24:", start=start)
      rec.cover(f"judged:{solver}:{cone}:{'sparse' if m.is_sparse else 'dense'}", 1)
      rec.cover(f"judged_pass:{tag}", 1)
      rec.cover("warmstart:" + ("cold", "hostile", "near_optimal")[min(w, 2) if w < 3 else 0] + ":" + tag, 1)
      rec.cover("niter_hist:" + solver, str(min(int(niter[w]), 20) if niter[w] < 20 else "20+"))
      for tt in range(8):
        k = int((P["type"] == tt).sum())
        if k:
          rec.cover("rows:" + E.TYPE_NAME[tt], k)
      if P["cone_idx0"].size:
        rec.cover("elliptic_cones", int(P["cone_idx0"].size))
        rec.cover("elliptic_cones_middle_zone", int((P["state"][P["cone_idx0"]] == E.S_CONE).sum()))
      if optb and p == 0:
        # what makes a world of this family an observation: it is not world 0, its own option value differs from world 0's
        # and the solver iterated (for impratio: with a contact on the cone surface, where the cost depends on mu)
        rec.cover("optbatch:worlds_judged", 1)
        nmid = int((P["state"][P["cone_idx0"]] == E.S_CONE).sum()) if P["cone_idx0"].size else 0
        for fld, arr in (("impratio_invsqrt", m.opt.impratio_invsqrt), ("tolerance", m.opt.tolerance), ("ls_tolerance", m.opt.ls_tolerance), ("meaninertia", m.stat.meaninertia)):
          a = mw.npy(arr)
          own = float(a[w % a.shape[0]])
          if w >= 1 and own != float(a[0]) and niter[w] >= 1:
            rec.cover("optbatch:worlds>=1_own_" + fld, 1)
            if fld == "impratio_invsqrt" and nmid:
              rec.cover("optbatch:worlds>=1_own_impratio_with_cone_surface_contact", 1)
              rec.cover("optbatch:cone_surface_contacts_in_worlds>=1_own_impratio", nmid)
        gf = mw.npy(m.geom_friction)
        if w >= 1 and gf.shape[0] > 1 and np.any(gf[w % gf.shape[0]] != gf[0]) and P["cone_idx0"].size:
          rec.cover("optbatch:worlds>=1_own_geom_friction_with_cone", 1)
      if res is not None and res["nactive"] >= 3 and niter[w] >= 1:
        nontriv = True
      if res is not None:
        if p == 0:
          refs[w], why = mujoco_reference(mj_models[w], states[w], case["seed"] + w)
          if refs[w] is None:
            rec.count(why)
            rec.cover("mujoco_certificate:ungated", 1)
          else:
            rec.check()
            rec.worst("selftest:law_vs_mj_constraintUpdate/1e-9", refs[w]["lawerr"] / 1e-9)
            if refs[w]["lawerr"] > 1e-7:
              rec.inconcl("numpy cost law disagrees with MuJoCo on this case (oracle self-test failed)")
              rec.count("ORACLE_SELFTEST_FAILED")
              refs[w] = None
        if refs.get(w) is not None:
          status, ratio, xgap, dq = certificate_ii(rec, refs[w], P, mw.contacts(d, w), solver)
          if p == 0:
            rec.count(status)
            rec.cover("mujoco_certificate:" + status.split(":")[0], 1)
            if gateable:
              rec.cover("gateable_worlds", 1)
              rec.cover("gateable_worlds_gated", int(status == "gated"))
          if status == "gated":
            rec.check()
            rec.worst(f"mujoco_cost_gap:{solver}:{tag}", ratio)
            rec.worst("info:|qacc-mj|/max(1,|mj|)/1e-3", dq / 1e-3)
            msg = f"MJWarp's qacc costs {xgap:.3g} (scaled) more than MuJoCo's optimum in MuJoCo's problem ({ratio:.3g}x bound, measured noise {refs[w]['noise']:.3g}), rel |dqacc|={dq:.3g} {ctx}"
            if p == 0:
              first_ii[w] = (ratio, msg)
              if ratio > cmp.VIOL_FACTOR and not stale_candidate:
                sig = f"mujoco_cost_gap:{solver}"
                if m.is_sparse and cw and first_i_ok.get(w, False) and E.only_weldparent_D_differs(mjm, P, refs[w]["Pj"]):
                  sig = "mujoco_cost_gap:connect_weld:sparse_path_uses_invweight0_of_weld_parent"
                rec.viol(sig, msg, qacc=P["qacc"][:8], ref=refs[w]["Pj"]["qacc"][:8])
              elif ratio > 1 and not (ratio > cmp.VIOL_FACTOR):
                rec.inconcl("mujoco cost gap in grey zone")
            else:
              if ratio > cmp.VIOL_FACTOR:
                sig = f"mujoco_cost_gap:{solver}"
                if m.is_sparse and cw and first_i_ok.get(w, False) and E.only_weldparent_D_differs(mjm, P, refs[w]["Pj"]):
                  # MJWarp solved ITS rows optimally; they differ from MuJoCo's only in the D of connect/weld rows, by
                  # exactly the invweight0 ratio body / weld parent (C05 finding, sparse path)
                  sig = "mujoco_cost_gap:connect_weld:sparse_path_uses_invweight0_of_weld_parent"
                rec.viol(sig, msg, qacc=P["qacc"][:8], ref=refs[w]["Pj"]["qacc"][:8])
              elif w in first_ii and first_ii[w][0] > cmp.VIOL_FACTOR and stale_candidate:
                # the first call disagreed, the repeat call (identical state, velocity-stage fields now fresh) agrees.
                # Narrow mechanism test: the first solve was optimal for ITS rows (certificate i clean) and the aref of
                # connect/weld rows changed between the two calls although the state did not.
                moved = False
                a1 = first_aref.get(w)
                if a1 is not None and a1.shape == P["aref"].shape:
                  eqr = (P["type"] == E.T_EQ) & np.isin(P["id"], cw)
                  moved = bool(eqr.any()) and float(np.abs(a1 - P["aref"])[eqr].max()) > 1e-5 * max(1.0, float(np.abs(P["aref"][eqr]).max()))
                narrow = ratio <= 1 and moved and first_i_ok.get(w, False)
                sig = "mujoco_cost_gap:connect_weld:stale_velocity_fields_on_first_call" if narrow else f"mujoco_cost_gap:{solver}"
                rec.viol(sig, first_ii[w][1] + f"; the repeat forward() on the same Data gives {ratio:.3g}x bound")
          elif p == 1 and w in first_ii and first_ii[w][0] > cmp.VIOL_FACTOR and stale_candidate:
            rec.viol(f"mujoco_cost_gap:{solver}", first_ii[w][1])
    # second pass: warm start from the solution just found
    prev_qacc = np.array(mw.npy(d.qacc), dtype=np.float64)[:, : mjm.nv]
    wp.copy(d.qacc_warmstart, d.qacc)
  for f in feat:
    rec.cover("features", f)
  rec.cover("solver_kernels", sorted(kernels))
  rec.cover("kind:" + case["kind"], 1)
  if optb:
    rec.cover("optbatch:leading_sizes(impratio/tolerance/ls_tolerance/meaninertia/geom_friction)", "/".join(str(blens[k]) for k in ("impratio_invsqrt", "tolerance", "ls_tolerance", "meaninertia", "geom_friction")))
    for k, v in blens.items():
      if v > 1:
        rec.cover("optbatch:cases_batched:" + k, 1)
  rec.cover("njmax_bucket", str(njmax))
  rec.cover("nv_class", "nv<=32" if mjm.nv <= 32 else "nv>32")
  if mjm.opt.disableflags & mujoco.mjtDisableBit.mjDSBL_WARMSTART:
    rec.cover("warmstart_disabled_cases", 1)
  if nontriv:
    rec.nontrivial(xml, *[s["qpos"] for s in states], *[s["qvel"] for s in states])
  rec.sample = {"kind": case["kind"], "model": case.get("path", f"seed {case['seed']}"), "nv": mjm.nv, "solver": solver, "cone": cone, "sparse": bool(m.is_sparse), "nefc": [int(x) for x in mw.npy(d.nefc)], "niter_repeat": [int(x) for x in mw.npy(d.solver_niter)], "settle": case["settle"]}
  return rec.result()


def requirements(agg, tier):
  unmet = []
  cov = agg["cover"]
  for s in ("Newton", "CG"):
    for c in ("pyramidal", "elliptic"):
      for j in ("dense", "sparse"):
        k = f"judged:{s}:{c}:{j}"
        if cov.get(k, 0) < (6 if tier == "quick" else 60):
          unmet.append(f"too few judged worlds for {k}: {cov.get(k, 0)}")
  for t in E.TYPE_NAME:
    if cov.get("rows:" + t, 0) < 20:
      unmet.append(f"fewer than 20 rows of type {t} in judged worlds")
  if cov.get("elliptic_cones_middle_zone", 0) < 10:
    unmet.append("fewer than 10 elliptic contacts in the middle (cone) zone")
  for k in ("judged_pass:first", "judged_pass:repeat", "warmstart:hostile:first", "warmstart:near_optimal:first"):
    if cov.get(k, 0) < 20:
      unmet.append(f"fewer than 20 judged worlds for {k}")
  # per-world option family: a run in which no world >= 1 with its own option value was judged observed nothing of it
  nq = tier == "quick"
  for k, lo in (
    ("optbatch:worlds>=1_own_impratio_with_cone_surface_contact", 15 if nq else 150),
    ("optbatch:worlds>=1_own_tolerance", 15 if nq else 150),
    ("optbatch:worlds>=1_own_ls_tolerance", 15 if nq else 150),
    ("optbatch:worlds>=1_own_meaninertia", 15 if nq else 150),
    ("optbatch:worlds>=1_own_geom_friction_with_cone", 10 if nq else 100),
  ):
    if cov.get(k, 0) < lo:
      unmet.append(f"per-world options: {k} = {cov.get(k, 0)} < {lo}")
  sizes = cov.get("optbatch:leading_sizes(impratio/tolerance/ls_tolerance/meaninertia/geom_friction)", [])
  if len(sizes) < 6:
    unmet.append(f"per-world options: only {len(sizes)} distinct combinations of leading sizes")
  if cov.get("gateable_worlds_gated", 0) < 0.5 * max(1, cov.get("gateable_worlds", 0)) or cov.get("gateable_worlds_gated", 0) < 30:
    unmet.append(f"MuJoCo certificate gated in {cov.get('gateable_worlds_gated', 0)} of {cov.get('gateable_worlds', 0)} worlds of analytic-narrowphase scenes (<50% or <30)")
  if agg["tally"].get("ORACLE_SELFTEST_FAILED", 0):
    unmet.append("oracle self-test failed in some case")
  if agg["distinct"] < 30:
    unmet.append("fewer than 30 distinct non-trivial cases")
  return unmet
