"""Shared result-recording helpers used by every property module (runs inside workers)."""

import hashlib
import json
import os
import sys
import traceback

import numpy as np

VERIF = os.path.dirname(os.path.dirname(os.path.abspath(__file__)))
REPO = os.environ.get("MJWARP_REPO", "/repo")
TEST_DATA = os.path.join(REPO, "mujoco_warp", "test_data")


def jsonable(x):
  if isinstance(x, dict):
    return {str(k): jsonable(v) for k, v in x.items()}
  if isinstance(x, (list, tuple, set, frozenset)):
    return [jsonable(v) for v in x]
  if isinstance(x, np.ndarray):
    if x.size > 64:
      return {"shape": list(x.shape), "head": jsonable(x.ravel()[:16])}
    return jsonable(x.tolist())
  if isinstance(x, (np.integer,)):
    return int(x)
  if isinstance(x, (np.floating,)):
    return float(x)
  if isinstance(x, (np.bool_,)):
    return bool(x)
  if isinstance(x, float):
    if x != x or x in (float("inf"), float("-inf")):
      return repr(x)
    return x
  if isinstance(x, (int, str, bool)) or x is None:
    return x
  return repr(x)


def stable_hash(*parts) -> str:
  h = hashlib.sha1()
  for p in parts:
    if isinstance(p, np.ndarray):
      h.update(np.ascontiguousarray(p).tobytes())
    else:
      h.update(repr(p).encode())
  return h.hexdigest()[:16]


class Rec:
  """Accumulates what the monitors of one case observed."""

  def __init__(self, case):
    self.case = case
    self.violations = []
    self.inconclusive = []
    self.checks = 0
    self.key = None
    self.cover_d = {}
    self.worst_d = {}
    self.sample = None
    self.rejected = None
    self.tally = {}

  # -- verdicts
  def viol(self, sig, msg, **data):
    if len(self.violations) < 20:
      self.violations.append({"sig": sig, "msg": msg, "data": jsonable(data)})

  def inconcl(self, reason):
    self.inconclusive.append(str(reason)[:200])

  def check(self, n=1):
    self.checks += int(n)

  # -- coverage
  def cover(self, name, value=1):
    """ints are summed across cases; strings / lists are unioned as sets."""
    if isinstance(value, (int, np.integer)) and not isinstance(value, bool):
      self.cover_d[name] = self.cover_d.get(name, 0) + int(value)
    else:
      s = self.cover_d.setdefault(name, [])
      vals = value if isinstance(value, (list, tuple, set, frozenset)) else [value]
      for v in vals:
        v = str(v)
        if v not in s:
          s.append(v)

  def worst(self, field, ratio):
    ratio = float(ratio)
    if not (ratio == ratio):
      ratio = float("inf")
    if ratio > self.worst_d.get(field, -1.0):
      self.worst_d[field] = ratio

  def count(self, name, n=1):
    self.tally[name] = self.tally.get(name, 0) + n

  def nontrivial(self, *parts):
    self.key = stable_hash(*parts)

  def result(self):
    return {
      "violations": self.violations,
      "inconclusive": self.inconclusive,
      "checks": self.checks,
      "key": self.key,
      "cover": self.cover_d,
      "worst": self.worst_d,
      "sample": jsonable(self.sample),
      "rejected": self.rejected,
      "tally": self.tally,
    }


def classify_exception(exc) -> str:
  """'repo' if the innermost non-stdlib frame is in mujoco_warp / warp, else 'harness'."""
  tb = traceback.extract_tb(exc.__traceback__)
  where = "harness"
  for fr in reversed(tb):
    fn = fr.filename
    if "/mon/" in fn and VERIF in fn:
      where = "harness"
      break
    if "/mujoco_warp/" in fn or "/warp/" in fn:
      where = "repo"
      break
  return where


def exception_sig(exc) -> str:
  tb = traceback.extract_tb(exc.__traceback__)
  fn = "?"
  for fr in reversed(tb):
    if "/mujoco_warp/" in fr.filename:
      fn = os.path.basename(fr.filename) + ":" + fr.name
      break
  return f"exception:{type(exc).__name__}:{fn}"
