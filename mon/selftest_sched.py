"""Self-test of the launch-order permuter: prints the observed task orders."""
import sys
from mon import worker
wp = worker.setup_warp("perm")
from mon import sched
import numpy as np

@wp.kernel
def order_k(counter: wp.array(dtype=int), out: wp.array(dtype=int)):
  tid = wp.tid()
  slot = wp.atomic_add(counter, 0, 1)
  out[slot] = tid

@wp.kernel
def order2_k(counter: wp.array(dtype=int), out: wp.array(dtype=int)):
  i, j = wp.tid()
  slot = wp.atomic_add(counter, 0, 1)
  out[slot] = i * 100 + j

def run(mode, key, n):
  c = wp.zeros(1, dtype=int); o = wp.zeros(n, dtype=int)
  sched.set_schedule(mode, key)
  wp.launch(order_k, dim=n, inputs=[c, o])
  return o.numpy()

ok = True
for n in (1, 2, 3, 7, 8, 33, 1000):
  a = run(0, 0, n); ok &= np.array_equal(a, np.arange(n))
  r = run(1, 0, n); ok &= np.array_equal(r, np.arange(n)[::-1])
  p1 = run(2, 5, n); p2 = run(2, 6, n)
  ok &= np.array_equal(np.sort(p1), np.arange(n)) and np.array_equal(np.sort(p2), np.arange(n))
  if n >= 7: ok &= not np.array_equal(p1, p2) and not np.array_equal(p1, np.arange(n))
  rot = run(3, 5, n); ok &= np.array_equal(np.sort(rot), np.arange(n))
  if n == 7: print("n=7 identity", a, "reverse", r, "random", p1, p2, "rot", rot)
c = wp.zeros(1, dtype=int); o = wp.zeros(12, dtype=int)
sched.set_schedule(2, 9)
wp.launch(order2_k, dim=(3, 4), inputs=[c, o])
print("2d random", o.numpy()); ok &= len(set(o.numpy().tolist())) == 12
print("counters", sched.counters())
print("SELFTEST", "PASS" if ok else "FAIL")
sys.exit(0 if ok else 1)
