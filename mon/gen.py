"""E1: seeded MJCF generator and state sampler.

gen(seed, profile) -> xml text.  Profiles are dicts of feature switches / probabilities; every
property module passes the features whose behaviour it observes.  A MuJoCo compile error means
"not a model" (the caller draws another seed); put_model rejections are counted by the caller.
"""

import numpy as np

DEFAULT = dict(
  nbody=(2, 8),
  p_free=0.25,
  p_ball=0.2,
  p_multi=0.3,  # several joints on one body
  p_weld=0.15,  # jointless child body
  p_mocap=0.15,
  p_branch=0.5,
  geoms=("sphere", "capsule", "ellipsoid", "cylinder", "box"),
  p_mesh=0.0,
  p_plane=0.3,
  p_hfield=0.0,
  collide=False,  # contype/conaffinity 0 unless True
  contact_rich=False,  # bias poses to touching
  p_site=0.7,
  p_camlight=0.0,
  tendon_fixed=0.0,
  tendon_spatial=0.0,
  p_wrap=0.6,
  actuators=0,  # max number
  act_kinds=("motor", "position", "velocity", "general"),
  act_dyn=("none", "integrator", "filter", "filterexact"),
  act_trn=("joint", "tendon", "site", "jointinparent"),
  equality=0,  # max number
  eq_kinds=("connect", "weld", "joint", "tendon"),
  p_limit=0.0,
  p_frictionloss=0.0,
  p_spring=0.3,
  p_damping=0.5,
  p_armature=0.4,
  p_gravcomp=0.0,
  fluid=0.0,
  sensors=0,
  sensor_kinds=(),
  keyframes=0,
  integrators=("Euler",),
  cones=("pyramidal",),
  solvers=("Newton",),
  jacobians=("auto",),
  timestep=(0.00390625, 0.001953125, 0.002, 0.005),
  condims=(3,),
  p_margin=0.0,
  p_pair=0.0,
  p_exclude=0.0,
  p_priority=0.0,
  flags_disable=(),
  flags_enable=(),
  p_massless=0.0,
  nuserdata=0,
  delays=0.0,
  act_ball=True,  # allow joint transmissions on ball/free joints
  big_tree=0,  # force one chain of this many hinge dofs (inertia layout boundaries)
  p_adhesion=0.0,  # geom adhesion (MuJoCo 3.13 passive contact adhesion); 0 draws no random numbers
  p_fluid_ellipsoid=0.0,  # fluidshape="ellipsoid" on body geoms; 0 draws no random numbers
  p_tendon_armature=None,  # None: p_armature/2 (historic behaviour)
  big_tree_branch=0,  # >0: the big tree starts a new branch at its root link every this many links
  # extras drawn from a SEPARATE random stream (self.rx): enabling them adds attributes but leaves the model structure
  # produced by the main stream unchanged
  p_poly=0.0,  # polynomial stiffness / damping coefficients on joints and tendons that have a spring / damper
  p_actfrcrange=0.0,  # actuatorfrcrange on joints and tendons
  p_surfacevel=0.0,  # geom surface velocity (only when collide)
  p_actgravcomp=0.0,  # joints whose gravity compensation is applied through qfrc_actuator (actuatorgravcomp)
  p_gravcomp_x=0.0,  # body gravcomp drawn from the extras stream (p_gravcomp draws from the main stream)
  p_soledge=0.0,  # solver parameters at their edges (solimp width 0, dmin == dmax, mid 0/1, power < 1 .. 6, direct solref) on
  # geoms, joint / tendon limits and friction, equalities
)


def profile(**kw):
  p = dict(DEFAULT)
  for k in kw:
    if k not in p:
      raise KeyError(k)
  p.update(kw)
  return p


def _f(x):
  return " ".join(f"{float(v):.6g}" for v in np.atleast_1d(x))


def _rquat(rng):
  q = rng.normal(size=4)
  return q / np.linalg.norm(q)


def _raxis(rng):
  if rng.random() < 0.4:
    a = np.zeros(3)
    a[rng.integers(3)] = rng.choice([-1.0, 1.0])
    return a
  a = rng.normal(size=3)
  return a / np.linalg.norm(a)


MESHES = {
  "tetra": ("0 0 0  0.2 0 0  0 0.2 0  0 0 0.2", None),
  "wedge": ("-0.1 -0.1 -0.1  0.1 -0.1 -0.1  0.1 0.1 -0.1  -0.1 0.1 -0.1  0 -0.1 0.12  0 0.1 0.12", None),
  "cubeish": (
    "-0.1 -0.1 -0.1  0.1 -0.1 -0.1  0.1 0.1 -0.1  -0.1 0.1 -0.1  -0.08 -0.08 0.1  0.08 -0.08 0.1  0.08 0.08 0.1  -0.08 0.08 0.1",
    None,
  ),
  "octa": ("0.15 0 0  -0.15 0 0  0 0.12 0  0 -0.12 0  0 0 0.1  0 0 -0.1", None),
}


class Gen:
  def __init__(self, seed, P):
    self.rng = np.random.default_rng(seed)
    self.rx = np.random.default_rng([int(seed) & 0xFFFFFFFF, 0xE47A])
    self.P = P
    self.bodies = []  # names of non-world bodies
    self.body_parent = {}
    self.joints = []  # (name, type, body)
    self.geoms = []  # (name, type, body)
    self.sites = []  # (name, body)
    self.tendons = []  # (name, kind)
    self.cams = []
    self.actuators = []
    self.mocap = []
    self.used_meshes = set()
    self.wrapgeoms = []  # (name,type,body,sidesite)
    self.uses_hfield = False
    self.feat = set()

  def _xsol(self):
    """(solref, solimp) strings with edge-case values, drawn from the extras stream."""
    rx = self.rx
    if rx.random() < 0.7:
      ref = [rx.uniform(0.002, 0.05), rx.uniform(0.3, 1.5)]
    else:
      ref = [-rx.uniform(50, 2000), -rx.uniform(1, 50)]  # direct stiffness / damping form
    dmin = float(rx.choice([0.0, 0.5, 0.9, rx.uniform(0.1, 0.95)]))
    dmax = dmin if rx.random() < 0.15 else float(rx.choice([0.95, 0.9999, 1.0, rx.uniform(dmin, 0.99)]))
    width = float(rx.choice([0.0, 1e-16, 0.001, 0.05]))
    mid = float(rx.choice([0.0, 1.0, 0.5, 0.1, 0.9]))
    power = float(rx.choice([0.5, 1.0, 2.0, 3.0, 6.0]))
    self.feat.add("soledge")
    return _f(ref), _f([dmin, dmax, width, mid, power])

  # ---------------------------------------------------------------- geoms
  def geom_xml(self, body, idx, world=False):
    rng, P = self.rng, self.P
    kinds = list(P["geoms"])
    t = kinds[rng.integers(len(kinds))]
    if rng.random() < P["p_mesh"]:
      t = "mesh"
    name = f"g_{body}_{idx}"
    s = rng.uniform(0.05, 0.25, size=3)
    attrs = {"name": name, "type": t}
    if t == "sphere":
      attrs["size"] = _f(s[0])
    elif t in ("capsule", "cylinder"):
      if rng.random() < 0.3:
        a = rng.normal(size=3) * 0.2
        b = a + _raxis(rng) * rng.uniform(0.1, 0.4)
        attrs["fromto"] = _f(np.concatenate([a, b]))
        attrs["size"] = _f(s[0])
      else:
        attrs["size"] = _f(s[:2])
    elif t in ("ellipsoid", "box"):
      attrs["size"] = _f(s)
    elif t == "mesh":
      mn = list(MESHES)[rng.integers(len(MESHES))]
      self.used_meshes.add(mn)
      attrs["mesh"] = mn
    if "fromto" not in attrs:
      if self.P["contact_rich"]:
        attrs["pos"] = _f(rng.normal(size=3) * 0.05)
      else:
        attrs["pos"] = _f(rng.normal(size=3) * 0.15)
      if rng.random() < 0.7:
        attrs["quat"] = _f(_rquat(rng))
    if rng.random() < 0.5:
      attrs["density"] = _f(rng.uniform(200, 3000))
    elif rng.random() < 0.3:
      attrs["mass"] = _f(rng.uniform(0.05, 3.0))
    self._contact_attrs(attrs)
    if self.P.get("p_fluid_ellipsoid") and body != "world" and rng.random() < self.P["p_fluid_ellipsoid"]:
      attrs["fluidshape"] = "ellipsoid"
      self.feat.add("fluid_ellipsoid")
    if P.get("p_soledge") and P["collide"] and self.rx.random() < P["p_soledge"]:
      attrs["solref"], attrs["solimp"] = self._xsol()
    if P.get("p_surfacevel") and P["collide"] and self.rx.random() < P["p_surfacevel"]:
      sv = self.rx.normal(size=6) * np.array([0.5, 0.5, 0.5, 1.0, 1.0, 1.0]) * (self.rx.random(6) < 0.6)
      attrs["surfacevel"] = _f(sv)
      self.feat.add("surfacevel")
    self.geoms.append((name, t, body))
    self.feat.add("geom:" + t)
    return "<geom " + " ".join(f'{k}="{v}"' for k, v in attrs.items()) + "/>"

  def _contact_attrs(self, attrs):
    rng, P = self.rng, self.P
    if not P["collide"]:
      attrs["contype"] = "0"
      attrs["conaffinity"] = "0"
      return
    if P.get("random_bits"):
      attrs["contype"] = str(int(rng.integers(0, 8)))
      attrs["conaffinity"] = str(int(rng.integers(0, 8)))
    cd = P["condims"][rng.integers(len(P["condims"]))]
    if cd != 3:
      attrs["condim"] = str(cd)
    if rng.random() < 0.5:
      attrs["friction"] = _f([rng.uniform(0.2, 1.5), rng.uniform(0.002, 0.02), rng.uniform(0.0001, 0.01)])
    if rng.random() < P["p_margin"]:
      mg = rng.uniform(0.0, 0.05)
      attrs["margin"] = _f(mg)
      if rng.random() < 0.5:
        attrs["gap"] = _f(rng.uniform(0, mg))
    if rng.random() < P["p_priority"]:
      attrs["priority"] = str(int(rng.integers(0, 3)))
      attrs["solmix"] = _f(rng.uniform(0.1, 3))
    if rng.random() < 0.3:
      attrs["solref"] = _f([rng.uniform(0.01, 0.05), rng.uniform(0.5, 1.5)])
    if rng.random() < 0.3:
      attrs["solimp"] = _f([rng.uniform(0.8, 0.95), rng.uniform(0.95, 0.99), rng.uniform(0.0005, 0.005), 0.5, 2])
    if P.get("p_adhesion") and rng.random() < P["p_adhesion"]:
      attrs["adhesion"] = _f(rng.uniform(0.5, 20))
      self.feat.add("adhesion")

  # ---------------------------------------------------------------- joints
  def joint_xml(self, body, jtype, idx):
    rng, P = self.rng, self.P
    name = f"j_{body}_{idx}"
    a = {"name": name, "type": jtype}
    if jtype == "free":
      self.joints.append((name, jtype, body))
      self.feat.add("joint:free")
      return f'<freejoint name="{name}"/>'
    if jtype in ("hinge", "slide"):
      a["axis"] = _f(_raxis(rng))
    if jtype != "slide" and rng.random() < 0.5:
      a["pos"] = _f(rng.normal(size=3) * 0.1)
    if jtype == "slide" and rng.random() < 0.3:
      a["pos"] = _f(rng.normal(size=3) * 0.1)
    if rng.random() < P["p_limit"]:
      if jtype == "hinge":
        lo = rng.uniform(-1.5, 0.2)
        a["range"] = _f([lo, lo + rng.uniform(0.2, 2.0)])
        a["limited"] = "true"
      elif jtype == "slide":
        lo = rng.uniform(-0.5, 0.1)
        a["range"] = _f([lo, lo + rng.uniform(0.1, 0.8)])
        a["limited"] = "true"
      else:
        a["range"] = _f([0, rng.uniform(0.2, 1.5)])
        a["limited"] = "true"
      if rng.random() < 0.3:
        a["margin"] = _f(rng.uniform(0, 0.1))
      self.feat.add("limit:" + jtype)
    if rng.random() < P["p_spring"]:
      a["stiffness"] = _f(rng.uniform(0.5, 30))
      if jtype in ("hinge", "slide"):
        a["springref"] = _f(rng.uniform(-0.3, 0.3))
      self.feat.add("spring")
    if rng.random() < P["p_damping"]:
      a["damping"] = _f(rng.uniform(0.05, 3))
      self.feat.add("damping")
    if rng.random() < P["p_armature"]:
      a["armature"] = _f(rng.uniform(0.001, 0.3))
      self.feat.add("armature")
    if rng.random() < P["p_frictionloss"]:
      a["frictionloss"] = _f(rng.uniform(0.05, 2))
      self.feat.add("frictionloss:dof")
    if jtype in ("hinge", "slide") and rng.random() < 0.3:
      a["ref"] = _f(rng.uniform(-0.3, 0.3))
    if P.get("p_poly"):
      for key in ("stiffness", "damping"):
        if key in a and self.rx.random() < P["p_poly"]:
          a[key] = a[key] + " " + _f(self.rx.uniform(0, 4, size=2) * (self.rx.random(2) < 0.8))
          self.feat.add(key + "poly:joint")
        elif key not in a and self.rx.random() < 0.3 * P["p_poly"]:
          # purely polynomial term: the linear coefficient is exactly zero
          c = self.rx.uniform(0.2, 4, size=2) * np.array([[1, 1], [1, 0], [0, 1]])[self.rx.integers(3)]
          a[key] = "0 " + _f(c)
          self.feat.add(key + "poly_only:joint")
    if P.get("p_actfrcrange") and self.rx.random() < P["p_actfrcrange"]:
      lo = self.rx.uniform(0.05, 3.0)
      a["actuatorfrcrange"] = _f([-lo, self.rx.uniform(0.05, 3.0)])
      a["actuatorfrclimited"] = "true"
      self.feat.add("actfrcrange:joint")
    if P.get("p_actgravcomp") and self.rx.random() < P["p_actgravcomp"]:
      a["actuatorgravcomp"] = "true"
      self.feat.add("actgravcomp")
    if P.get("p_soledge"):
      if "range" in a and self.rx.random() < P["p_soledge"]:
        a["solreflimit"], a["solimplimit"] = self._xsol()
      if "frictionloss" in a and self.rx.random() < P["p_soledge"]:
        a["solreffriction"], a["solimpfriction"] = self._xsol()
    self.joints.append((name, jtype, body))
    self.feat.add("joint:" + jtype)
    return "<joint " + " ".join(f'{k}="{v}"' for k, v in a.items()) + "/>"

  # ---------------------------------------------------------------- bodies
  def build(self):
    rng, P = self.rng, self.P
    nb = int(rng.integers(P["nbody"][0], P["nbody"][1] + 1))
    children = {"world": []}
    specs = {}
    order = []
    nfree = 0
    for i in range(nb):
      name = f"b{i}"
      if i == 0 or rng.random() > P["p_branch"] and False:
        parent = "world"
      else:
        cand = ["world"] + order
        # favour depth: pick recent bodies more often
        w = np.array([1.0] + [1.0 + 0.5 * k for k in range(len(order))])
        parent = cand[rng.choice(len(cand), p=w / w.sum())]
      mocap = False
      if parent == "world" and i > 0 and rng.random() < P["p_mocap"]:
        mocap = True
      jts = []
      if not mocap:
        r = rng.random()
        if parent == "world" and r < P["p_free"]:
          jts = ["free"]
        elif r < P["p_free"] + P["p_ball"]:
          jts = ["ball"]
        elif rng.random() < P["p_weld"] and i > 0:
          jts = []
        else:
          n = 1 + (rng.random() < P["p_multi"]) + (rng.random() < P["p_multi"] * 0.5)
          jts = [("hinge", "slide")[int(rng.random() < 0.3)] for _ in range(n)]
          if rng.random() < 0.1 and P["p_ball"] > 0:
            jts = ["slide", "ball"] if rng.random() < 0.5 else ["ball", "hinge"]
      specs[name] = dict(parent=parent, mocap=mocap, joints=jts)
      children.setdefault(parent, []).append(name)
      children.setdefault(name, [])
      order.append(name)
      self.body_parent[name] = parent
    if P["big_tree"]:
      # one extra chain b_c0..b_cK of single-hinge bodies hanging off the world
      prev = "world"
      br = int(P.get("big_tree_branch") or 0)
      for k in range(P["big_tree"]):
        name = f"c{k}"
        if br and k > 0 and k % br == 0:
          prev = "c0"  # start a new branch at the root link: same tree size, far better conditioned than one chain
        specs[name] = dict(parent=prev, mocap=False, joints=["hinge"], chain=True)
        children.setdefault(prev, []).append(name)
        children.setdefault(name, [])
        order.append(name)
        self.body_parent[name] = prev
        prev = name
    self.bodies = order
    self.specs = specs
    self.children = children

    def body_xml(name, depth):
      sp = specs[name]
      ind = "  " * (depth + 2)
      a = {"name": name}
      scale = 0.15 if P["contact_rich"] else 0.4
      if sp.get("chain"):
        a["pos"] = _f([0.12, 0, 0] if sp["parent"] != "world" else [0, 2.0, 1.0])
      else:
        pos = rng.normal(size=3) * scale
        if sp["parent"] == "world":
          pos[2] = abs(pos[2]) + (0.1 if P["contact_rich"] else 0.5)
        a["pos"] = _f(pos)
        if rng.random() < 0.7:
          a["quat"] = _f(_rquat(rng))
      if sp["mocap"]:
        a["mocap"] = "true"
        self.mocap.append(name)
        self.feat.add("mocap")
      if rng.random() < P["p_gravcomp"]:
        a["gravcomp"] = _f(rng.uniform(0.2, 1.5))
        self.feat.add("gravcomp")
      if P.get("p_gravcomp_x") and "gravcomp" not in a and self.rx.random() < P["p_gravcomp_x"]:
        a["gravcomp"] = _f(self.rx.uniform(0.2, 1.5))
        self.feat.add("gravcomp")
      out = [ind + "<body " + " ".join(f'{k}="{v}"' for k, v in a.items()) + ">"]
      for k, jt in enumerate(sp["joints"]):
        js = self.joint_xml(name, jt, k)
        if sp.get("chain") and P.get("big_tree_branch"):
          # keep the big tree's inertia matrix well conditioned in float32 (light links far from the root hinge)
          import re as _re

          js = _re.sub(r' armature="[^"]*"', "", js).replace("/>", ' armature="0.08"/>')
        out.append(ind + "  " + js)
      massless = (not sp["joints"]) and rng.random() < P["p_massless"]
      if sp.get("chain"):
        out.append(ind + f'  <geom name="g_{name}_0" type="capsule" size="0.03" fromto="0 0 0 0.12 0 0" contype="0" conaffinity="0"/>')
        self.geoms.append((f"g_{name}_0", "capsule", name))
      elif massless:
        self.feat.add("massless_body")
      elif rng.random() < 0.2:
        # explicit inertial, maybe no geoms
        diag = rng.uniform(0.002, 0.05, size=3)
        diag[2] = min(diag[2], 0.95 * (diag[0] + diag[1]))
        diag[0] = min(diag[0], 0.95 * (diag[1] + diag[2]))
        diag[1] = min(diag[1], 0.95 * (diag[0] + diag[2]))
        out.append(
          ind + f'  <inertial pos="{_f(rng.normal(size=3) * 0.05)}" quat="{_f(_rquat(rng))}" mass="{_f(rng.uniform(0.1, 3))}" diaginertia="{_f(diag)}"/>'
        )
        self.feat.add("explicit_inertial")
        if rng.random() < 0.6:
          out.append(ind + "  " + self.geom_xml(name, 0))
      else:
        for k in range(1 + int(rng.random() < 0.35)):
          out.append(ind + "  " + self.geom_xml(name, k))
      if rng.random() < P["p_site"]:
        for k in range(1 + int(rng.random() < 0.4)):
          sn = f"s_{name}_{k}"
          st = ("sphere", "box", "capsule", "ellipsoid", "cylinder")[rng.integers(5)]
          out.append(ind + f'  <site name="{sn}" type="{st}" size="{_f(rng.uniform(0.02, 0.1, size=3))}" pos="{_f(rng.normal(size=3) * 0.15)}" quat="{_f(_rquat(rng))}"/>')
          self.sites.append((sn, name))
      if rng.random() < P["p_camlight"]:
        out.append(ind + "  " + self.camlight_xml(name))
      for ch in children[name]:
        out.extend(body_xml(ch, depth + 1))
      out.append(ind + "</body>")
      return out

    wb = []
    if rng.random() < P["p_plane"]:
      a = {"name": "g_world_plane", "type": "plane", "size": "0 0 1"}
      if rng.random() < 0.3:
        a["pos"] = _f([0, 0, rng.uniform(-0.3, 0.1)])
      if rng.random() < 0.2:
        a["quat"] = _f(_rquat(rng) * 0.1 + np.array([1, 0, 0, 0]))
      self._contact_attrs(a)
      wb.append("    <geom " + " ".join(f'{k}="{v}"' for k, v in a.items()) + "/>")
      self.geoms.append(("g_world_plane", "plane", "world"))
      self.feat.add("geom:plane")
    if rng.random() < P["p_hfield"]:
      self.uses_hfield = True
      a = {"name": "g_world_hf", "type": "hfield", "hfield": "hf", "pos": _f([rng.uniform(-0.3, 0.3), rng.uniform(-0.3, 0.3), rng.uniform(-0.3, 0)])}
      self._contact_attrs(a)
      wb.append("    <geom " + " ".join(f'{k}="{v}"' for k, v in a.items()) + "/>")
      self.geoms.append(("g_world_hf", "hfield", "world"))
      self.feat.add("geom:hfield")
    if rng.random() < 0.3:
      # static world geom and site
      wb.append("    " + self.geom_xml("world", 7))
    if rng.random() < 0.5:
      wb.append(f'    <site name="s_world_0" pos="{_f(rng.normal(size=3) * 0.5)}" quat="{_f(_rquat(rng))}" size="0.05"/>')
      self.sites.append(("s_world_0", "world"))
    if rng.random() < P["p_camlight"]:
      wb.append("    " + self.camlight_xml("world"))
    for name in children["world"]:
      wb.extend(body_xml(name, 0))
    return wb

  def camlight_xml(self, body):
    rng = self.rng
    modes = ["fixed", "track", "trackcom", "targetbody", "targetbodycom"]
    mode = modes[rng.integers(5)]
    if body == "world" and mode in ("track", "trackcom"):
      mode = "fixed"
    tgt = ""
    if mode.startswith("target"):
      cands = [b for b in self.specs if b != body]
      if not cands:
        mode = "fixed"
      else:
        tgt = f' target="{cands[rng.integers(len(cands))]}"'
    self.feat.add("camlight:" + mode)
    if rng.random() < 0.5:
      name = f"cam{len(self.cams)}"
      self.cams.append(name)
      return f'<camera name="{name}" mode="{mode}"{tgt} pos="{_f(rng.normal(size=3) * 0.5)}" quat="{_f(_rquat(rng))}" fovy="{_f(rng.uniform(30, 80))}"/>'
    return f'<light mode="{mode}"{tgt} pos="{_f(rng.normal(size=3) * 0.5)}" dir="{_f(_raxis(rng))}"/>'

  # ---------------------------------------------------------------- tendons
  def tendon_xml(self):
    rng, P = self.rng, self.P
    out = []
    scal = [j for j in self.joints if j[1] in ("hinge", "slide")]
    n = 0
    while scal and rng.random() < P["tendon_fixed"] and n < 3:
      k = int(rng.integers(1, min(3, len(scal)) + 1))
      js = rng.choice(len(scal), size=k, replace=False)
      name = f"tf{n}"
      a = self._tendon_attrs(name)
      out.append(f"    <fixed {a}>")
      for ji in js:
        out.append(f'      <joint joint="{scal[ji][0]}" coef="{_f(rng.choice([-1, 1]) * rng.uniform(0.3, 2))}"/>')
      out.append("    </fixed>")
      self.tendons.append((name, "fixed"))
      self.feat.add("tendon:fixed")
      n += 1
    n = 0
    while len(self.sites) >= 2 and rng.random() < P["tendon_spatial"] and n < 3:
      name = f"ts{n}"
      a = self._tendon_attrs(name)
      npts = int(rng.integers(2, min(4, len(self.sites)) + 1))
      idx = rng.choice(len(self.sites), size=npts, replace=False)
      out.append(f'    <spatial {a} width="0.01">')
      for k, si in enumerate(idx):
        out.append(f'      <site site="{self.sites[si][0]}"/>')
        if k < npts - 1:
          if self.wrapgeoms and rng.random() < P["p_wrap"]:
            wg = self.wrapgeoms[rng.integers(len(self.wrapgeoms))]
            ss = f' sidesite="{wg[3]}"' if (wg[3] and rng.random() < 0.5) else ""
            out.append(f'      <geom geom="{wg[0]}"{ss}/>')
            self.feat.add("wrap:" + wg[1])
          elif rng.random() < 0.15 and k < npts - 2:
            out.append(f'      <pulley divisor="{_f(rng.choice([1, 2, 3]))}"/>')
            self.feat.add("wrap:pulley")
      out.append("    </spatial>")
      self.tendons.append((name, "spatial"))
      self.feat.add("tendon:spatial")
      n += 1
    return out

  def _tendon_attrs(self, name):
    rng, P = self.rng, self.P
    a = {"name": name}
    if rng.random() < P["p_spring"]:
      a["stiffness"] = _f(rng.uniform(1, 50))
      if rng.random() < 0.5:
        lo = rng.uniform(0, 0.5)
        a["springlength"] = _f([lo, lo + rng.uniform(0, 0.5)])
      self.feat.add("tendon_spring")
    if rng.random() < P["p_damping"]:
      a["damping"] = _f(rng.uniform(0.1, 3))
      self.feat.add("tendon_damping")
    if rng.random() < (P["p_armature"] * 0.5 if P.get("p_tendon_armature") is None else P["p_tendon_armature"]):
      a["armature"] = _f(rng.uniform(0.01, 0.2))
      self.feat.add("tendon_armature")
    if rng.random() < P["p_frictionloss"]:
      a["frictionloss"] = _f(rng.uniform(0.05, 1))
      self.feat.add("frictionloss:tendon")
    if rng.random() < P["p_limit"]:
      lo = rng.uniform(-0.2, 0.6)
      a["range"] = _f([lo, lo + rng.uniform(0.1, 1.0)])
      a["limited"] = "true"
      if rng.random() < 0.3:
        a["margin"] = _f(rng.uniform(0, 0.05))
      self.feat.add("limit:tendon")
    if P.get("p_poly"):
      for key in ("stiffness", "damping"):
        if key in a and self.rx.random() < P["p_poly"]:
          a[key] = a[key] + " " + _f(self.rx.uniform(0, 4, size=2) * (self.rx.random(2) < 0.8))
          self.feat.add(key + "poly:tendon")
        elif key not in a and self.rx.random() < 0.3 * P["p_poly"]:
          c = self.rx.uniform(0.2, 4, size=2) * np.array([[1, 1], [1, 0], [0, 1]])[self.rx.integers(3)]
          a[key] = "0 " + _f(c)
          self.feat.add(key + "poly_only:tendon")
    if P.get("p_actfrcrange") and self.rx.random() < P["p_actfrcrange"]:
      lo = self.rx.uniform(0.05, 3.0)
      a["actuatorfrcrange"] = _f([-lo, self.rx.uniform(0.05, 3.0)])
      a["actuatorfrclimited"] = "true"
      self.feat.add("actfrcrange:tendon")
    if P.get("p_soledge"):
      if "range" in a and self.rx.random() < P["p_soledge"]:
        a["solreflimit"], a["solimplimit"] = self._xsol()
      if "frictionloss" in a and self.rx.random() < P["p_soledge"]:
        a["solreffriction"], a["solimpfriction"] = self._xsol()
    return " ".join(f'{k}="{v}"' for k, v in a.items())

  # ---------------------------------------------------------------- actuators
  def actuator_xml(self):
    rng, P = self.rng, self.P
    out = []
    nact = int(rng.integers(0, P["actuators"] + 1)) if P["actuators"] else 0
    scal = [j for j in self.joints if j[1] in ("hinge", "slide")]
    for i in range(nact):
      trn = P["act_trn"][rng.integers(len(P["act_trn"]))]
      tattr = None
      if trn in ("joint", "jointinparent"):
        cands = self.joints if (rng.random() < 0.3 and P["act_ball"]) else scal
        cands = [j for j in cands if j[1] != "free"] or (self.joints if P["act_ball"] else [])
        if not cands:
          continue
        j = cands[rng.integers(len(cands))]
        tattr = f'{trn}="{j[0]}"'
        if j[1] in ("ball", "free"):
          g = rng.normal(size=6 if j[1] == "free" else 3)
          tattr += f' gear="{_f(np.concatenate([g, np.zeros(6 - len(g))]))}"'
        elif rng.random() < 0.5:
          tattr += f' gear="{_f(rng.uniform(-3, 3))}"'
      elif trn == "tendon":
        if not self.tendons:
          continue
        tattr = f'tendon="{self.tendons[rng.integers(len(self.tendons))][0]}"'
        if rng.random() < 0.5:
          tattr += f' gear="{_f(rng.uniform(0.5, 3))}"'
      elif trn == "site":
        if not self.sites:
          continue
        s = self.sites[rng.integers(len(self.sites))]
        tattr = f'site="{s[0]}" gear="{_f(rng.normal(size=6))}"'
        if rng.random() < 0.5 and len(self.sites) > 1:
          r = self.sites[rng.integers(len(self.sites))]
          if r[0] != s[0]:
            tattr += f' refsite="{r[0]}"'
            self.feat.add("trn:refsite")
      elif trn == "slidercrank":
        if len(self.sites) < 2:
          continue
        i1, i2 = rng.choice(len(self.sites), size=2, replace=False)
        tattr = f'cranksite="{self.sites[i1][0]}" slidersite="{self.sites[i2][0]}" cranklength="{_f(rng.uniform(0.5, 2.5))}"'
      elif trn == "body":
        continue
      self.feat.add("trn:" + trn)
      kind = P["act_kinds"][rng.integers(len(P["act_kinds"]))]
      name = f"a{i}"
      common = f'name="{name}" {tattr}'
      if rng.random() < 0.5:
        lo = rng.uniform(-2, 0)
        common += f' ctrllimited="true" ctrlrange="{_f([lo, lo + rng.uniform(0.5, 3)])}"'
        self.feat.add("ctrllimited")
      if rng.random() < 0.4:
        lo = rng.uniform(-5, 0)
        common += f' forcelimited="true" forcerange="{_f([lo, lo + rng.uniform(1, 8)])}"'
        self.feat.add("forcelimited")
      if rng.random() < P["delays"]:
        common += f' delay="{_f(rng.choice([0.004, 0.008, 0.01, 0.0117]))}" nsample="{int(rng.integers(1, 6))}" interp="{["zoh", "linear", "cubic"][rng.integers(3)]}"'
        self.feat.add("act_delay")
      self.feat.add("actkind:" + kind)
      if kind == "motor":
        out.append(f"    <motor {common}/>")
      elif kind == "position":
        extra = f'kp="{_f(rng.uniform(1, 50))}"'
        if rng.random() < 0.5:
          extra += f' kv="{_f(rng.uniform(0.1, 5))}"'
        if rng.random() < 0.3:
          extra += f' timeconst="{_f(rng.uniform(0.01, 0.2))}"'
          self.feat.add("dyn:filterexact")
        out.append(f"    <position {common} {extra}/>")
      elif kind == "velocity":
        out.append(f'    <velocity {common} kv="{_f(rng.uniform(0.1, 10))}"/>')
      elif kind == "intvelocity":
        lo = rng.uniform(-1.5, -0.1)
        out.append(f'    <intvelocity {common} kp="{_f(rng.uniform(1, 50))}" actrange="{_f([lo, lo + rng.uniform(0.5, 3)])}"/>')
        self.feat.add("actlimited")
      elif kind == "damper":
        if "ctrlrange" not in common:
          common += f' ctrlrange="0 {_f(rng.uniform(0.5, 3))}"'
        else:
          common = common.split(" ctrllimited")[0] + f' ctrlrange="0 {_f(rng.uniform(0.5, 3))}"'
        out.append(f'    <damper {common} kv="{_f(rng.uniform(0.1, 5))}"/>')
      elif kind == "cylinder":
        out.append(f'    <cylinder {common} timeconst="{_f(rng.uniform(0.02, 0.5))}" area="{_f(rng.uniform(0.5, 2))}" bias="{_f(rng.normal(size=3))}"/>')
        self.feat.add("dyn:filter")
      elif kind == "muscle":
        out.append(f'    <muscle {common.split(" ctrllimited")[0].split(" forcelimited")[0]} lengthrange="{_f([0.1, 1.5])}" force="{_f(rng.uniform(10, 200))}" timeconst="{_f([rng.uniform(0.005, 0.02), rng.uniform(0.02, 0.08)])}" tausmooth="{_f(rng.choice([0, 0.2]))}"/>')
        self.feat.add("dyn:muscle")
      elif kind == "dcmotor":
        extra = f'motorconst="{_f([rng.uniform(0.02, 0.2), rng.uniform(0.02, 0.2)])}" resistance="{_f(rng.uniform(0.5, 5))}"'
        if rng.random() < 0.5:
          extra += f' inductance="{_f(rng.uniform(0.001, 0.05))}"'
          self.feat.add("dcmotor:inductance")
        out.append(f"    <dcmotor {common} {extra}/>")
        self.feat.add("dyn:dcmotor")
      elif kind == "adhesion":
        continue
      else:  # general
        dyn = P["act_dyn"][rng.integers(len(P["act_dyn"]))]
        gain = ("fixed", "affine")[int(rng.random() < 0.4)]
        bias = ("none", "affine")[int(rng.random() < 0.5)]
        extra = f'dyntype="{dyn}" gaintype="{gain}" biastype="{bias}"'
        extra += f' gainprm="{_f(rng.uniform(0.5, 20))} {_f(rng.normal(size=2))}"'
        extra += f' biasprm="{_f(rng.normal(size=3) * 3)}"'
        if dyn in ("filter", "filterexact"):
          extra += f' dynprm="{_f(rng.uniform(0.01, 0.3))}"'
        elif dyn == "integrator":
          extra += ' dynprm="1"'
        if dyn != "none":
          if rng.random() < 0.5:
            lo = rng.uniform(-1.5, -0.1)
            extra += f' actlimited="true" actrange="{_f([lo, lo + rng.uniform(0.5, 3)])}"'
            self.feat.add("actlimited")
          if rng.random() < 0.5:
            extra += ' actearly="true"'
            self.feat.add("actearly")
        self.feat.add("dyn:" + dyn)
        self.feat.add("gain:" + gain)
        self.feat.add("bias:" + bias)
        out.append(f"    <general {common} {extra}/>")
      self.actuators.append(name)
    # body adhesion
    if "body" in P["act_trn"] and self.bodies and rng.random() < 0.5:
      b = self.bodies[rng.integers(len(self.bodies))]
      if any(g[2] == b for g in self.geoms):
        out.append(f'    <adhesion name="adh" body="{b}" ctrlrange="0 1" gain="{_f(rng.uniform(1, 20))}"/>')
        self.actuators.append("adh")
        self.feat.add("trn:body")
    return out

  # ---------------------------------------------------------------- equality
  def equality_xml(self):
    rng, P = self.rng, self.P
    out = []
    if not P["equality"]:
      return out
    n = int(rng.integers(0, P["equality"] + 1))
    scal = [j for j in self.joints if j[1] in ("hinge", "slide")]
    moving = [b for b in self.bodies if b not in self.mocap]
    for i in range(n):
      kind = P["eq_kinds"][rng.integers(len(P["eq_kinds"]))]
      act = ' active="false"' if rng.random() < 0.2 else ""
      sol = ""
      if rng.random() < 0.3:
        sol = f' solref="{_f([rng.uniform(0.01, 0.05), rng.uniform(0.5, 1.5)])}"'
      if rng.random() < 0.3:
        sol += f' solimp="{_f([rng.uniform(0.8, 0.95), rng.uniform(0.95, 0.99), rng.uniform(0.0005, 0.005), 0.5, 2])}"'
      if P.get("p_soledge") and self.rx.random() < P["p_soledge"]:
        xr, xi = self._xsol()
        sol = f' solref="{xr}" solimp="{xi}"'
      if kind == "connect" and moving:
        if rng.random() < 0.4 and len(self.sites) >= 2:
          i1, i2 = rng.choice(len(self.sites), size=2, replace=False)
          if self.sites[i1][1] == self.sites[i2][1]:
            continue
          out.append(f'    <connect name="eq{i}" site1="{self.sites[i1][0]}" site2="{self.sites[i2][0]}"{act}{sol}/>')
          self.feat.add("eq:connect_site")
        else:
          b1 = moving[rng.integers(len(moving))]
          b2 = ""
          if rng.random() < 0.6 and len(self.bodies) > 1:
            c = self.bodies[rng.integers(len(self.bodies))]
            if c != b1:
              b2 = f' body2="{c}"'
          out.append(f'    <connect name="eq{i}" body1="{b1}"{b2} anchor="{_f(rng.normal(size=3) * 0.2)}"{act}{sol}/>')
          self.feat.add("eq:connect")
      elif kind == "weld" and moving:
        if rng.random() < 0.3 and len(self.sites) >= 2:
          i1, i2 = rng.choice(len(self.sites), size=2, replace=False)
          if self.sites[i1][1] == self.sites[i2][1]:
            continue
          out.append(f'    <weld name="eq{i}" site1="{self.sites[i1][0]}" site2="{self.sites[i2][0]}" torquescale="{_f(rng.uniform(0.2, 2))}"{act}{sol}/>')
          self.feat.add("eq:weld_site")
        else:
          b1 = moving[rng.integers(len(moving))]
          b2 = ""
          if rng.random() < 0.6 and len(self.bodies) > 1:
            c = self.bodies[rng.integers(len(self.bodies))]
            if c != b1:
              b2 = f' body2="{c}"'
          rp = ""
          if rng.random() < 0.5:
            rp = f' relpose="{_f(rng.normal(size=3) * 0.2)} {_f(_rquat(rng))}"'
          out.append(f'    <weld name="eq{i}" body1="{b1}"{b2}{rp} torquescale="{_f(rng.uniform(0.2, 2))}"{act}{sol}/>')
          self.feat.add("eq:weld")
      elif kind == "joint" and scal:
        j1 = scal[rng.integers(len(scal))]
        j2 = ""
        if rng.random() < 0.7 and len(scal) > 1:
          c = scal[rng.integers(len(scal))]
          if c[0] != j1[0]:
            j2 = f' joint2="{c[0]}"'
        out.append(f'    <joint name="eq{i}" joint1="{j1[0]}"{j2} polycoef="{_f(rng.normal(size=5) * [0.1, 1, 0.3, 0.1, 0.05])}"{act}{sol}/>')
        self.feat.add("eq:joint")
      elif kind == "tendon" and self.tendons:
        t1 = self.tendons[rng.integers(len(self.tendons))]
        t2 = ""
        if rng.random() < 0.5 and len(self.tendons) > 1:
          c = self.tendons[rng.integers(len(self.tendons))]
          if c[0] != t1[0]:
            t2 = f' tendon2="{c[0]}"'
        out.append(f'    <tendon name="eq{i}" tendon1="{t1[0]}"{t2} polycoef="{_f(rng.normal(size=5) * [0.1, 1, 0.3, 0.1, 0.05])}"{act}{sol}/>')
        self.feat.add("eq:tendon")
    return out

  # ---------------------------------------------------------------- contact pairs
  def contact_xml(self):
    rng, P = self.rng, self.P
    out = []
    g = [x for x in self.geoms]
    if len(g) >= 2 and P["p_pair"] > 0:
      seen = set()
      for _ in range(4):
        if rng.random() < P["p_pair"]:
          i1, i2 = rng.choice(len(g), size=2, replace=False)
          if g[i1][2] == g[i2][2] or (min(i1, i2), max(i1, i2)) in seen:
            continue
          if g[i1][1] in ("plane", "hfield") and g[i2][1] in ("plane", "hfield"):
            continue
          seen.add((min(i1, i2), max(i1, i2)))
          a = f'geom1="{g[i1][0]}" geom2="{g[i2][0]}"'
          if rng.random() < 0.6:
            a += f' condim="{[1, 3, 4, 6][rng.integers(4)]}"'
          if rng.random() < 0.5:
            a += f' friction="{_f(rng.uniform(0.1, 1.5, size=2))} {_f(rng.uniform(0.001, 0.02, size=3))}"'
          if rng.random() < 0.4:
            mg = rng.uniform(0, 0.05)
            a += f' margin="{_f(mg)}" gap="{_f(rng.uniform(0, mg))}"'
          if rng.random() < 0.3:
            a += f' solref="{_f([rng.uniform(0.01, 0.05), rng.uniform(0.5, 1.5)])}"'
          if rng.random() < 0.3:
            a += f' solreffriction="{_f([rng.uniform(0.01, 0.05), rng.uniform(0.5, 1.5)])}"'
          out.append(f"    <pair {a}/>")
          self.feat.add("contact:pair")
    if len(self.bodies) >= 2 and P["p_exclude"] > 0:
      for _ in range(3):
        if rng.random() < P["p_exclude"]:
          i1, i2 = rng.choice(len(self.bodies), size=2, replace=False)
          out.append(f'    <exclude body1="{self.bodies[i1]}" body2="{self.bodies[i2]}"/>')
          self.feat.add("contact:exclude")
    return out

  # ---------------------------------------------------------------- top level
  def xml(self):
    rng, P = self.rng, self.P
    # wrap geoms live on bodies: pre-plan (added into a random body after build via world for simplicity)
    wb = self.build()
    extra_world = []
    if P["tendon_spatial"] > 0:
      for k in range(int(rng.integers(0, 3))):
        t = ("sphere", "cylinder")[rng.integers(2)]
        nm = f"g_wrap_{k}"
        pos = rng.normal(size=3) * 0.3 + np.array([0, 0, 0.5])
        size = _f(rng.uniform(0.03, 0.12)) if t == "sphere" else _f([rng.uniform(0.03, 0.12), 0.3])
        side = ""
        if rng.random() < 0.6:
          side = f"s_wrapside_{k}"
          sp = pos + _raxis(rng) * rng.uniform(0.15, 0.3)
          extra_world.append(f'    <site name="{side}" pos="{_f(sp)}" size="0.01"/>')
        extra_world.append(f'    <geom name="{nm}" type="{t}" size="{size}" pos="{_f(pos)}" quat="{_f(_rquat(rng))}" contype="0" conaffinity="0"/>')
        self.wrapgeoms.append((nm, t, "world", side))
    tend = self.tendon_xml()
    act = self.actuator_xml()
    eq = self.equality_xml()
    con = self.contact_xml()
    sens = self.sensor_xml()
    integ = P["integrators"][rng.integers(len(P["integrators"]))]
    cone = P["cones"][rng.integers(len(P["cones"]))]
    solver = P["solvers"][rng.integers(len(P["solvers"]))]
    jac = P["jacobians"][rng.integers(len(P["jacobians"]))]
    ts = P["timestep"][rng.integers(len(P["timestep"]))]
    self.feat.update({"integrator:" + integ, "cone:" + cone, "solver:" + solver, "jacobian:" + jac})
    opt = f'timestep="{ts}" integrator="{integ}" cone="{cone}" solver="{solver}" jacobian="{jac}"'
    if rng.random() < 0.3:
      opt += f' gravity="{_f(rng.normal(size=3) * 5)}"'
    if rng.random() < P["fluid"]:
      opt += f' density="{_f(rng.uniform(1, 1000))}" viscosity="{_f(rng.uniform(0.0001, 0.1))}"'
      if rng.random() < 0.5:
        opt += f' wind="{_f(rng.normal(size=3) * 3)}"'
      self.feat.add("fluid")
    if cone == "elliptic" and rng.random() < 0.5:
      opt += f' impratio="{_f(rng.choice([0.5, 2, 10]))}"'
    flags = ""
    fl = []
    for f in P["flags_disable"]:
      if rng.random() < 0.5:
        fl.append(f'{f}="disable"')
        self.feat.add("disable:" + f)
    for f in P["flags_enable"]:
      if rng.random() < 0.5:
        fl.append(f'{f}="enable"')
        self.feat.add("enable:" + f)
    if fl:
      flags = "<flag " + " ".join(fl) + "/>"
    lines = ["<mujoco>", f"  <option {opt}>{flags}</option>"]
    comp = '  <compiler angle="radian" autolimits="false" boundmass="0" boundinertia="0"/>'
    lines.append(comp)
    if P["nuserdata"]:
      lines.append(f'  <size nuserdata="{P["nuserdata"]}"/>')
    assets = []
    for mn in sorted(self.used_meshes):
      assets.append(f'    <mesh name="{mn}" vertex="{MESHES[mn][0]}"/>')
    if self.uses_hfield:
      nr, nc = 6, 5
      el = rng.uniform(0, 1, size=nr * nc)
      assets.append(f'    <hfield name="hf" nrow="{nr}" ncol="{nc}" size="1.5 1.2 0.3 0.1" elevation="{_f(el)}"/>')
    if assets:
      lines += ["  <asset>"] + assets + ["  </asset>"]
    # wrap geoms and their side sites live in a last, jointless (static) body, so that their ids exceed the other
    # geoms' / sites' ids (geom id >= nsite happens)
    if extra_world:
      extra_world = ['    <body name="bwrap">'] + ["  " + x for x in extra_world] + ["    </body>"]
    lines += ["  <worldbody>"] + wb + extra_world + ["  </worldbody>"]
    if tend:
      lines += ["  <tendon>"] + tend + ["  </tendon>"]
    if act:
      lines += ["  <actuator>"] + act + ["  </actuator>"]
    if eq:
      lines += ["  <equality>"] + eq + ["  </equality>"]
    if con:
      lines += ["  <contact>"] + con + ["  </contact>"]
    if sens:
      lines += ["  <sensor>"] + sens + ["  </sensor>"]
    lines.append("</mujoco>")
    return "\n".join(lines)

  # ---------------------------------------------------------------- sensors
  def sensor_xml(self):
    rng, P = self.rng, self.P
    out = []
    if not P["sensors"] or not P["sensor_kinds"]:
      return out
    n = int(rng.integers(1, P["sensors"] + 1))
    scal = [j for j in self.joints if j[1] in ("hinge", "slide")]
    balls = [j for j in self.joints if j[1] == "ball"]
    frames = [("body", b) for b in self.bodies] + [("xbody", b) for b in self.bodies] + [("site", s[0]) for s in self.sites] + [("geom", g[0]) for g in self.geoms] + [("camera", c) for c in self.cams]
    for i in range(n):
      k = P["sensor_kinds"][rng.integers(len(P["sensor_kinds"]))]
      cut = f' cutoff="{_f(rng.uniform(0.05, 5))}"' if rng.random() < 0.3 else ""
      nm = f'name="sn{i}"'
      line = None
      if k in ("jointpos", "jointvel", "jointactuatorfrc", "jointlimitpos", "jointlimitvel", "jointlimitfrc") and scal:
        line = f'<{k} {nm} joint="{scal[rng.integers(len(scal))][0]}"{cut}/>'
      elif k in ("ballquat", "ballangvel") and balls:
        line = f'<{k} {nm} joint="{balls[rng.integers(len(balls))][0]}"/>'
      elif k in ("tendonpos", "tendonvel", "tendonactuatorfrc", "tendonlimitpos", "tendonlimitvel", "tendonlimitfrc") and self.tendons:
        line = f'<{k} {nm} tendon="{self.tendons[rng.integers(len(self.tendons))][0]}"{cut}/>'
      elif k in ("actuatorpos", "actuatorvel", "actuatorfrc") and self.actuators:
        line = f'<{k} {nm} actuator="{self.actuators[rng.integers(len(self.actuators))]}"{cut}/>'
      elif k in ("framepos", "framequat", "framexaxis", "frameyaxis", "framezaxis", "framelinvel", "frameangvel", "framelinacc", "frameangacc") and frames:
        ot, on = frames[rng.integers(len(frames))]
        ref = ""
        if rng.random() < 0.5 and k not in ("framelinacc", "frameangacc"):
          rt, rn = frames[rng.integers(len(frames))]
          ref = f' reftype="{rt}" refname="{rn}"'
        line = f'<{k} {nm} objtype="{ot}" objname="{on}"{ref}{cut if k != "framequat" else ""}/>'
      elif k in ("subtreecom", "subtreelinvel", "subtreeangmom") and self.bodies:
        line = f'<{k} {nm} body="{self.bodies[rng.integers(len(self.bodies))]}"{cut}/>'
      elif k in ("accelerometer", "velocimeter", "gyro", "force", "torque", "magnetometer", "rangefinder", "touch") and self.sites:
        line = f'<{k} {nm} site="{self.sites[rng.integers(len(self.sites))][0]}"{cut}/>'
      elif k == "clock":
        line = f"<clock {nm}/>"
      elif k in ("e_potential", "e_kinetic"):
        line = f"<{k} {nm}/>"
      elif k in ("distance", "normal", "fromto") and len(self.geoms) >= 2:
        g = [x for x in self.geoms if x[1] not in ("plane", "hfield", "mesh")]
        if len(g) >= 2:
          i1, i2 = rng.choice(len(g), size=2, replace=False)
          line = f'<{k} {nm} geom1="{g[i1][0]}" geom2="{g[i2][0]}" cutoff="{_f(rng.uniform(0.5, 5))}"/>'
      elif k == "insidesite" and self.sites and frames:
        ot, on = frames[rng.integers(len(frames))]
        if ot != "camera":
          line = f'<insidesite {nm} site="{self.sites[rng.integers(len(self.sites))][0]}" objtype="{ot}" objname="{on}"/>'
      elif k == "camprojection" and self.cams and self.sites:
        line = f'<camprojection {nm} site="{self.sites[rng.integers(len(self.sites))][0]}" camera="{self.cams[rng.integers(len(self.cams))]}"/>'
      if line:
        if rng.random() < P["delays"] and "cutoff" not in line and k not in ("clock",):
          line = line[:-2] + f' delay="{_f(rng.choice([0.004, 0.008, 0.01]))}" nsample="{int(rng.integers(1, 5))}" interp="{["zoh", "linear", "cubic"][rng.integers(3)]}"/>'
          self.feat.add("sensor_delay")
        out.append("    " + line)
        self.feat.add("sensor:" + k)
    return out


def gen(seed, P):
  g = Gen(seed, P)
  xml = g.xml()
  return xml, sorted(g.feat)


def compile_xml(xml):
  import mujoco

  try:
    return mujoco.MjModel.from_xml_string(xml)
  except Exception as e:  # noqa
    return None


def make_model(seed, P, tries=30, accept=None):
  """Draws seeds until MuJoCo compiles the model (and accept(mjm) is true). Returns (xml, mjm, feats, seed_used)."""
  for k in range(tries):
    s = seed * 1000003 + k
    xml, feat = gen(s, P)
    mjm = compile_xml(xml)
    if mjm is None:
      continue
    if mjm.nv == 0:
      continue
    if accept is not None and not accept(mjm):
      continue
    return xml, mjm, feat, s
  return None, None, None, None


# ------------------------------------------------------------------------------------ states


def sample_state(mjm, rng, vel=1.0, quat_scale=True, ctrl_scale=1.5, applied=True, tiny_quat=False):
  """Random float32-representable state for one world."""
  import mujoco

  st = {}
  qpos = np.array(mjm.qpos0, dtype=np.float64)
  for j in range(mjm.njnt):
    adr = mjm.jnt_qposadr[j]
    t = mjm.jnt_type[j]
    if t == mujoco.mjtJoint.mjJNT_FREE:
      qpos[adr : adr + 3] += rng.normal(size=3) * 0.3
      q = rng.normal(size=4)
      q /= np.linalg.norm(q)
      if quat_scale:
        q *= np.exp(rng.uniform(-2.3, 2.3))
      qpos[adr + 3 : adr + 7] = q
    elif t == mujoco.mjtJoint.mjJNT_BALL:
      q = rng.normal(size=4)
      q /= np.linalg.norm(q)
      if quat_scale:
        q *= np.exp(rng.uniform(-2.3, 2.3))
      qpos[adr : adr + 4] = q
    else:
      if mjm.jnt_limited[j] and rng.random() < 0.7:
        lo, hi = mjm.jnt_range[j]
        w = hi - lo
        qpos[adr] = rng.uniform(lo - 0.15 * w, hi + 0.15 * w)
      else:
        qpos[adr] += rng.normal() * (0.8 if t == mujoco.mjtJoint.mjJNT_HINGE else 0.2)
  st["qpos"] = qpos.astype(np.float32)
  st["qvel"] = (rng.normal(size=mjm.nv) * vel).astype(np.float32)
  st["act"] = (rng.uniform(-1, 1, size=mjm.na)).astype(np.float32)
  ctrl = rng.normal(size=mjm.nu) * ctrl_scale
  # some controls exactly at / far outside ranges
  for i in range(mjm.nu):
    r = rng.random()
    if mjm.actuator_ctrllimited[i]:
      if r < 0.15:
        ctrl[i] = mjm.actuator_ctrlrange[i, rng.integers(2)]
      elif r < 0.3:
        ctrl[i] = mjm.actuator_ctrlrange[i, 1] + rng.uniform(0.1, 10)
  st["ctrl"] = ctrl.astype(np.float32)
  mp = np.array(mjm.body_pos[mjm.body_mocapid >= 0], dtype=np.float64).reshape(-1, 3) if mjm.nmocap else np.zeros((0, 3))
  # order mocap arrays by mocapid
  mpos = np.zeros((mjm.nmocap, 3))
  mquat = np.zeros((mjm.nmocap, 4))
  for b in range(mjm.nbody):
    mid = mjm.body_mocapid[b]
    if mid >= 0:
      mpos[mid] = mjm.body_pos[b] + rng.normal(size=3) * 0.2
      q = rng.normal(size=4)
      q /= np.linalg.norm(q)
      if quat_scale:
        q *= np.exp(rng.uniform(-1.5, 1.5))
      mquat[mid] = q
  st["mocap_pos"] = mpos.astype(np.float32)
  st["mocap_quat"] = mquat.astype(np.float32)
  if applied:
    st["qfrc_applied"] = (rng.normal(size=mjm.nv) * (rng.random() < 0.7)).astype(np.float32)
    xf = np.zeros((mjm.nbody, 6))
    for b in range(1, mjm.nbody):
      if rng.random() < 0.3:
        xf[b] = rng.normal(size=6) * 2
    st["xfrc_applied"] = xf.astype(np.float32)
  else:
    st["qfrc_applied"] = np.zeros(mjm.nv, np.float32)
    st["xfrc_applied"] = np.zeros((mjm.nbody, 6), np.float32)
  ea = np.array(mjm.eq_active0, dtype=bool)
  for i in range(mjm.neq):
    if rng.random() < 0.15:
      ea[i] = not ea[i]
  st["eq_active"] = ea
  st["time"] = np.float32(rng.choice([0.0, 0.25, 1.5]))
  if mjm.nuserdata:
    st["userdata"] = rng.normal(size=mjm.nuserdata).astype(np.float32)
  return st
