"""Regenerates /verif/MANIFEST.json from the property modules (python -m mon.manifest)."""

import importlib
import json
import os

VERIF = os.path.dirname(os.path.dirname(os.path.abspath(__file__)))


def main():
  props = [json.loads(l) for l in open(os.path.join(VERIF, "properties.jsonl"))]
  checks, na = [], []
  claims_path = os.path.join(VERIF, "mon", "claims.json")
  claims = set(json.load(open(claims_path))) if os.path.exists(claims_path) else None
  for p in props:
    pid = p["id"]
    path = os.path.join(VERIF, "mon", "props", f"{pid}.py")
    mod = None
    if os.path.exists(path):
      mod = importlib.import_module(f"mon.props.{pid}")
    if mod is None or not getattr(mod, "CLAIM", True) or (claims is not None and pid not in claims):
      na.append({"property_id": pid, "reason": getattr(mod, "NA_REASON", "monitor not built yet in this round (no technical obstacle; see DESIGN.md section 4)")})
      continue
    checks.append(
      {
        "property_id": pid,
        "quick_cmd": f"./check {pid} --tier quick",
        "thorough_cmd": f"./check {pid} --tier thorough",
        "evidence_file": f"/verif/evidence/{pid}.json",
        "replay_cmd_template": f"./check {pid} --replay {{path}}",
        "engine": "mon",
        "level_claimed": {
          "category": getattr(mod, "LEVEL", "exploration"),
          "text": getattr(mod, "LEVEL_TEXT", (mod.__doc__ or "").strip().split("\n\n")[0]),
          "design_ref": f"DESIGN.md section 4 {pid}",
        },
        "level_note": getattr(mod, "LEVEL_NOTE", "; ".join(getattr(mod, "ASSUMPTIONS", []))),
        "technique": getattr(mod, "TECHNIQUE", "runtime monitoring: differential/metamorphic oracle over generated executions of the real code"),
      }
    )
  man = {
    "version": 1,
    "setup_cmd": "bash setup.sh",
    "hooks": {
      "guard": "MJWARP_VERIF",
      "enable": "no hooks are compiled into /repo: every instrument (launch-order permuter, launch log, wp.empty poisoner, bounds-checked debug build) attaches from the harness by patching Warp / wrapping public functions at import time; /repo is an editable install so checks always run the current working tree",
      "baseline_off_cmd": "cd /repo && /venv/bin/python -m pytest -ra -q -p no:cacheprovider --timeout=900 --continue-on-collection-errors",
      "source_commits": [],
      "add_only": True,
    },
    "engines": [
      {
        "name": "mon",
        "path": "/verif/mon",
        "serves_properties": [c["property_id"] for c in checks],
        "kind_free_text": "runtime monitors over executions of the real mujoco_warp code on Warp's CPU device: seeded model/state generator, MuJoCo C as reference executor with conditioning probe, metamorphic comparators, launch-order permuter, scratch poisoner, bounds-checked (debug) kernel build; sharded over 16 worker subprocesses",
      }
    ],
    "checks": checks,
    "notes": "Exit codes: 0 held on everything observed, 1 violation (VIOLATION line + replay file), 2 inconclusive (deciding monitor not reached). known_findings.jsonl lists open findings (KNOWN-FINDING lines) and fixed ones.",
    "not_applicable": na,
  }
  with open(os.path.join(VERIF, "MANIFEST.json"), "w") as f:
    json.dump(man, f, indent=1)
  print(f"claimed {len(checks)} / not claimed {len(na)}")


if __name__ == "__main__":
  main()
