"""Regenerates /verif/MANIFEST.json from the property modules (python -m mon.manifest)."""

import importlib
import json
import os

VERIF = os.path.dirname(os.path.dirname(os.path.abspath(__file__)))


LEVELS = ("exploration", "fault_enumeration", "model_checking", "proof", "translation_validation", "other")

DIFF = "runtime monitoring: differential oracle (MuJoCo C as reference executor, ulp conditioning probe) over generated executions of the real code"
META = "runtime monitoring: metamorphic oracle over pairs of executions of the real code"
INV = "runtime monitoring: invariant monitor on live Data at API boundaries over generated executions"
TECH = {
  "C01": DIFF, "C02": DIFF, "C03": DIFF, "C04": DIFF + " (contact multisets)", "C05": DIFF + " (constraint-row multisets)",
  "C06": "runtime monitoring: float64 cost/KKT certificate recomputed from the observed constraint rows + gated differential oracle",
  "C07": DIFF, "C08": DIFF + " (lock-step with resynchronisation)", "C13": META + " (reset vs fresh vs control run)", "C14": DIFF + " + " + META,
  "C15": DIFF + " (mj_getState/mj_setState) + round-trip monitor", "C18": META + " (47 broadphase configurations vs all-pairs)",
  "C19": DIFF + " + independent rule evaluator", "C20": INV + " (float64 closed-form / support-function geometry)",
  "C21": INV + " (float64 backward error of every factor/solve call)", "C22": INV + " + finite differences + " + DIFF, "C23": INV,
  "C24": INV, "C26": INV + " (forward/inverse round trip) + " + DIFF, "C27": DIFF + " + finite differences",
  "C28": "runtime monitoring: bounded-exhaustive enumeration of constraint graphs (eq_active per world) against union-find and mj_island",
  "C29": INV + " (sleep state machine) + MuJoCo lock-step + launch-order permutation of the wake kernels",
  "C30": DIFF + " + independent delay-line model", "C31": DIFF + " (field-by-field host/device round trip)", "C32": DIFF + " over flag subsets with measured liveness",
  "C33": DIFF + " (mj_setConst)", "C34": DIFF + " (per-geom float64 ray table) + BVH-vs-brute metamorphic", "C35": DIFF + " (per-pixel rays from MuJoCo's GL frustum)",
  "C37": META + " (step1;step2 vs step, forward twice)", "C38": META + " (compacted vs full solve) + " + INV, "C39": DIFF + " (mj_contactForce)", "C40": DIFF,
}


def _level(mod):
  lv = getattr(mod, "LEVEL", "exploration")
  return lv if lv in LEVELS else "exploration"


def _text(mod):
  doc = " ".join((getattr(mod, "LEVEL_TEXT", None) or (mod.__doc__ or "")).split())
  rule = " ".join(str(getattr(mod, "RULE", "")).split())
  return (doc[:900] + (" || Coverage rule: " + rule[:500] if rule else "") + " || Held on the executions observed (counts in the evidence file), not a proof.")[:1600]


def main():
  props = [json.loads(l) for l in open(os.path.join(VERIF, "properties.jsonl"))]
  checks, na = [], []
  claims_path = os.path.join(VERIF, "mon", "claims.json")
  claims = set(json.load(open(claims_path))) if os.path.exists(claims_path) else None
  for p in props:
    pid = p["id"]
    path = os.path.join(VERIF, "mon", "props", f"{pid}.py")
    mod = None
    if os.path.exists(path):
      mod = importlib.import_module(f"mon.props.{pid}")
    if mod is None or not getattr(mod, "CLAIM", True) or (claims is not None and pid not in claims):
      na.append({"property_id": pid, "reason": getattr(mod, "NA_REASON", "monitor not built yet in this round (no technical obstacle; see DESIGN.md section 4)")})
      continue
    checks.append(
      {
        "property_id": pid,
        "quick_cmd": f"./check {pid} --tier quick",
        "thorough_cmd": f"./check {pid} --tier thorough",
        "evidence_file": f"/verif/evidence/{pid}.json",
        "replay_cmd_template": f"./check {pid} --replay {{path}}",
        "engine": "mon",
        "level_claimed": {
          "category": _level(mod),
          "text": _text(mod),
          "design_ref": f"DESIGN.md section 4 {pid}",
        },
        "level_note": getattr(mod, "LEVEL_NOTE", "; ".join(getattr(mod, "ASSUMPTIONS", []))),
        "technique": getattr(mod, "TECHNIQUE", TECH.get(pid, "runtime monitoring: oracle over generated executions of the real code")),
      }
    )
  man = {
    "version": 1,
    "setup_cmd": "bash setup.sh",
    "hooks": {
      "guard": "MJWARP_VERIF",
      "enable": "no hooks are compiled into /repo: every instrument (launch-order permuter, launch log, wp.empty poisoner, bounds-checked debug build) attaches from the harness by patching Warp / wrapping public functions at import time; /repo is an editable install so checks always run the current working tree",
      "baseline_off_cmd": "cd /repo && /venv/bin/python -m pytest -ra -q -p no:cacheprovider --timeout=900 --continue-on-collection-errors",
      "source_commits": [],
      "add_only": True,
    },
    "engines": [
      {
        "name": "mon",
        "path": "/verif/mon",
        "serves_properties": [c["property_id"] for c in checks],
        "kind_free_text": "runtime monitors over executions of the real mujoco_warp code on Warp's CPU device: seeded model/state generator, MuJoCo C as reference executor with conditioning probe, metamorphic comparators, launch-order permuter, scratch poisoner, bounds-checked (debug) kernel build; sharded over 16 worker subprocesses",
      }
    ],
    "checks": checks,
    "notes": "Exit codes: 0 held on everything observed, 1 violation (VIOLATION line + replay file), 2 inconclusive (deciding monitor not reached). known_findings.jsonl lists open findings (KNOWN-FINDING lines) and fixed ones.",
    "not_applicable": na,
  }
  with open(os.path.join(VERIF, "MANIFEST.json"), "w") as f:
    json.dump(man, f, indent=1)
  print(f"claimed {len(checks)} / not claimed {len(na)}")


if __name__ == "__main__":
  main()
