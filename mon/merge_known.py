"""Rebuilds known_findings.jsonl: keeps every 'fixed' entry and every open entry of properties not covered by a
candidates file, and takes the open entries of the other properties from known_candidates/grp*.jsonl."""
import glob, json, os
V = os.path.dirname(os.path.dirname(os.path.abspath(__file__)))
kf = os.path.join(V, "known_findings.jsonl")
cur = [json.loads(l) for l in open(kf) if l.strip()]
cand = []
for f in sorted(glob.glob(os.path.join(V, "known_candidates", "*.jsonl"))):
  cand += [json.loads(l) for l in open(f) if l.strip()]
props = {e["property"] for e in cand}
fixed = {(e["property"], e["sig"]) for e in cur if e["status"] == "fixed"}
out, seen = [], set()
for e in cur:
  k = (e["property"], e["sig"])
  if e["status"] == "fixed" or e["property"] not in props:
    if k not in seen:
      seen.add(k); out.append(e)
for e in cand:
  k = (e["property"], e["sig"])
  if k in seen or k in fixed or e.get("status") != "open":
    continue
  seen.add(k); out.append(e)
with open(kf, "w") as f:
  for e in out:
    f.write(json.dumps(e) + "\n")
print(len(out), "entries;", sum(e["status"] == "open" for e in out), "open")
