"""E4 launch-order permuter + E7 launch log for Warp's CPU device.

On the CPU device a kernel launch is the sequential loop generated from
warp._src.codegen.cpu_module_template_forward.  install() replaces that template by one that runs the
tasks of a launch in identity / reverse / keyed pseudo-random order (4-round Feistel network with
cycle walking => a bijection on [0,n)), selected per launch through three extra words appended to the
ctypes launch-bounds struct.  Nothing in /repo or site-packages is edited; the generated code differs
from stock Warp, therefore install() must only be used with a private kernel cache dir (worker mode
'perm*').

set_schedule(mode, key): mode 0 identity, 1 reverse, 2 keyed random (a different permutation for every
launch: key is mixed with a running launch counter), 3 rotate-by-key.
"""

import ctypes

import numpy as np

TEMPLATE = """

#ifndef VP_PERM_DEFINED
#define VP_PERM_DEFINED
static inline unsigned long long vp_mix(unsigned long long x)
{{
    x += 0x9E3779B97F4A7C15ull;
    x = (x ^ (x >> 30)) * 0xBF58476D1CE4E5B9ull;
    x = (x ^ (x >> 27)) * 0x94D049BB133111EBull;
    return x ^ (x >> 31);
}}

static inline size_t vp_perm(size_t i, size_t n, unsigned long long key, unsigned hb)
{{
    const unsigned long long mask = (1ull << hb) - 1ull;
    unsigned long long x = i;
    do {{
        unsigned long long L = x >> hb, R = x & mask;
        for (int r = 0; r < 4; ++r) {{
            unsigned long long F = vp_mix(key ^ (R * 0x100000001B3ull) ^ ((unsigned long long)r << 56)) & mask;
            unsigned long long nl = R, nr = L ^ F;
            L = nl; R = nr;
        }}
        x = (L << hb) | R;
    }} while (x >= n);
    return (size_t)x;
}}
#endif

extern "C" {{

// Python CPU entry points
WP_API void {name}_cpu_forward(
    wp::launch_bounds_t<{launch_ndim}> *dim,
    wp_args_{name} *_wp_args)
{{
    wp::tile_shared_storage_t tile_mem;
#if defined(WP_ENABLE_TILES_IN_STACK_MEMORY)
    wp::shared_tile_storage = &tile_mem;
#endif
    const unsigned long long* vx = (const unsigned long long*)((const char*)dim + sizeof(wp::launch_bounds_t<{launch_ndim}>));
    const unsigned long long mode = vx[0];
    const unsigned long long key = vx[1];
    unsigned long long* ctr = (unsigned long long*)vx[2];
    const size_t n = dim->size;
    if (ctr) {{ ctr[0] += 1; ctr[1] += n; if (n >= 2 && mode != 0) ctr[2] += 1; }}

    if (mode == 0 || n < 2)
    {{
        for (size_t task_index = 0; task_index < n; ++task_index)
            {name}_cpu_kernel_forward(*dim, task_index, _wp_args);
    }}
    else if (mode == 1)
    {{
        for (size_t t = n; t > 0; --t)
            {name}_cpu_kernel_forward(*dim, t - 1, _wp_args);
    }}
    else if (mode == 3)
    {{
        const size_t off = (size_t)(key % n);
        for (size_t t = 0; t < n; ++t)
            {name}_cpu_kernel_forward(*dim, (t + off) % n, _wp_args);
    }}
    else
    {{
        unsigned bits = 1;
        while ((1ull << bits) < n) ++bits;
        unsigned hb = (bits + 1) / 2;
        for (size_t t = 0; t < n; ++t)
            {name}_cpu_kernel_forward(*dim, vp_perm(t, n, key, hb), _wp_args);
    }}
}}

}} // extern C

"""


class _State:
  mode = 0
  key = 0
  counter = 0
  only = None  # permute only this launch index (localisation), identity elsewhere
  ctr = (ctypes.c_ulonglong * 4)()
  log = None  # list of (kernel name, size) when logging
  names_permuted = None
  kernel_filter = None  # if set: only permute launches of kernels whose key contains this substring
  current_kernel = ""


S = _State()
_installed = False


def _mix(x):
  x = (x + 0x9E3779B97F4A7C15) & 0xFFFFFFFFFFFFFFFF
  x = ((x ^ (x >> 30)) * 0xBF58476D1CE4E5B9) & 0xFFFFFFFFFFFFFFFF
  x = ((x ^ (x >> 27)) * 0x94D049BB133111EB) & 0xFFFFFFFFFFFFFFFF
  return x ^ (x >> 31)


def _make_class(ndim):
  def __init__(self, shape):
    if isinstance(shape, int):
      shape = (shape,)
    size = 1
    for i, extent in enumerate(shape):
      self.shape[i] = extent
      size *= extent
    self.size = size
    self.coord_mult = 1
    idx = S.counter
    S.counter += 1
    mode = S.mode
    if S.only is not None and idx != S.only:
      mode = 0
    if S.kernel_filter is not None and S.kernel_filter not in S.current_kernel:
      mode = 0
    self.vmode = mode
    self.vkey = _mix(S.key * 0x9E3779B1 + idx)
    self.vctr = ctypes.addressof(S.ctr)

  return type(
    f"launch_bounds_{ndim}d_t",
    (ctypes.Structure,),
    {
      "_fields_": (
        ("shape", ctypes.c_int32 * ndim),
        ("size", ctypes.c_size_t),
        ("coord_mult", ctypes.c_size_t),
        ("vmode", ctypes.c_ulonglong),
        ("vkey", ctypes.c_ulonglong),
        ("vctr", ctypes.c_ulonglong),
      ),
      "__init__": __init__,
    },
  )


def install():
  """Must run before any kernel module is built/loaded in this process."""
  global _installed
  if _installed:
    return
  import warp as wp
  import warp._src.codegen as codegen
  import warp._src.types as wtypes

  codegen.cpu_module_template_forward = TEMPLATE
  for n in list(wtypes._launch_bounds_classes):
    old = wtypes._launch_bounds_classes[n]
    new = _make_class(n)
    wtypes._launch_bounds_classes[n] = new
    if old in wtypes.simple_type_codes:
      wtypes.simple_type_codes[new] = wtypes.simple_type_codes[old]
  install_launchlog()
  _installed = True


_log_installed = False


def install_launchlog():
  """E7: wraps wp.launch / wp.launch_tiled to record kernel names and sizes (works in every mode)."""
  global _log_installed
  if _log_installed:
    return
  import warp as wp

  orig_launch = wp.launch
  orig_tiled = wp.launch_tiled

  def _name(kernel):
    return getattr(kernel, "key", None) or getattr(kernel, "__name__", "?")

  def _note(args, kwargs):
    kernel = args[0] if args else kwargs.get("kernel")
    dim = kwargs.get("dim", args[1] if len(args) > 1 else None)
    nm = _name(kernel)
    S.current_kernel = nm
    if S.log is not None:
      try:
        size = int(np.prod(dim)) if not isinstance(dim, int) else int(dim)
      except Exception:
        size = -1
      S.log.append((nm, size))
      if S.names_permuted is not None and size >= 2 and S.mode != 0:
        S.names_permuted.add(nm.split("__")[0])

  def launch(*args, **kwargs):
    _note(args, kwargs)
    return orig_launch(*args, **kwargs)

  def launch_tiled(*args, **kwargs):
    _note(args, kwargs)
    return orig_tiled(*args, **kwargs)

  # launch_tiled calls wp.launch internally through the module attribute? It calls `launch` of
  # warp._src.context directly, so wrapping both public names does not double count.
  wp.launch = launch
  wp.launch_tiled = launch_tiled
  _log_installed = True


def set_schedule(mode, key=0, only=None, kernel_filter=None):
  S.mode = int(mode)
  S.key = int(key) & 0xFFFFFFFF
  S.counter = 0
  S.only = only
  S.kernel_filter = kernel_filter


def reset_counters():
  for i in range(4):
    S.ctr[i] = 0


def counters():
  return {"launches": int(S.ctr[0]), "tasks": int(S.ctr[1]), "launches_permuted_ge2": int(S.ctr[2])}


def start_log(track_names=True):
  S.log = []
  S.names_permuted = set() if track_names else None


def stop_log():
  log, names = S.log, S.names_permuted
  S.log, S.names_permuted = None, None
  return log or [], names or set()
