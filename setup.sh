#!/bin/bash
# Offline setup: nothing to install (all checks run under /venv/bin/python with the repo's own deps).
# Creates the harness' private Warp kernel caches and warms them with the common pipeline.
cd "$(dirname "$0")" || exit 1
mkdir -p .cache/release .cache/debug .cache/perm .cache/permdebug .cache/work evidence replays
export PYTHONPATH="/verif:${PYTHONPATH}"
/venv/bin/python -m mon.warm || true
exit 0
